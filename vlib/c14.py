"""C14 -- upstream servers are exactly the ready endpoints of the referenced service port."""
import os, json
from . import common as C

NS = "ns"
KIND = {"ing": "KIng", "vs": "KVS", "vsr": "KVSR", "ts": "KTS"}
FAILKIND = {7: "api-push-differs-from-file", 1: "duplicate-address", 2: "named-target-port-first-pod-only", 3: "vsr-cluster-ip-unbracketed",
            4: "unnamed-service-port-matches-any-number", 5: "externalname-named-backend-port-zero",
            6: "server-lines", 9: "other"}


def cq_labels(kv):
    return C.cq_list(["(%s, %s)" % (C.cq_str(k), C.cq_str(v)) for k, v in (kv or [])])


def cq_target(p):
    # Go cannot tell IntOrString{Type: Int, IntVal: 0} from the zero value: both mean "unset"
    if p["tkind"] == 1 and p["tnum"] != 0:
        return "(TNum %s)" % C.cq_z(p["tnum"])
    if p["tkind"] == 2:
        return "(TNamed %s)" % C.cq_str(p["tname"])
    return "TUnset"


def cq_cluster(c):
    svcs = C.cq_list([
        "{| s_ns := %s; s_name := %s; s_type := %s; s_clusterIP := %s; s_extname := %s; s_selector := %s; s_ports := %s |}" % (
            C.cq_str(s["ns"]), C.cq_str(s["name"]), "ExternalNameT" if s["type"] == "ExternalName" else "ClusterIPT",
            C.cq_str(s["cluster_ip"]), C.cq_str(s["ext_name"]), cq_labels(s.get("selector")),
            C.cq_list(["{| sp_name := %s; sp_port := %s; sp_proto := %s; sp_target := %s |}" % (
                C.cq_str(p["name"]), C.cq_z(p["port"]), C.cq_str(p["proto"]), cq_target(p)) for p in s.get("ports") or []]))
        for s in c.get("svcs") or []])
    slices = C.cq_list([
        "{| sl_ns := %s; sl_svc := %s; sl_ports := %s; sl_eps := %s |}" % (
            C.cq_str(s["ns"]), C.cq_str(s["svc"]),
            C.cq_list(["{| slp_name := %s; slp_num := %s |}" % (C.cq_str(p["name"]), C.cq_opt(p["num"] if p["has_num"] else None, C.cq_z))
                       for p in s.get("ports") or []]),
            C.cq_list(["{| e_addrs := %s; e_ready := %s; e_ref := %s |}" % (
                C.cq_list([C.cq_str(a) for a in e.get("addrs") or []]),
                {-1: "None", 0: "(Some false)", 1: "(Some true)"}[e["ready"]], C.cq_str(e["ref"])) for e in s.get("eps") or []]))
        for s in c.get("slices") or []])
    pods = C.cq_list([
        "{| p_ns := %s; p_name := %s; p_ip := %s; p_labels := %s; p_ports := %s |}" % (
            C.cq_str(p["ns"]), C.cq_str(p["name"]), C.cq_str(p["ip"]), cq_labels(p.get("labels")),
            C.cq_list(["{| cp_name := %s; cp_num := %s; cp_proto := %s |}" % (C.cq_str(x["name"]), C.cq_z(x["num"]), C.cq_str(x["proto"]))
                       for x in p.get("ports") or []]))
        for p in c.get("pods") or []])
    return "{| c_svcs := %s;\n   c_slices := %s;\n   c_pods := %s |}" % (svcs, slices, pods)


def cq_backend(b):
    return "{| b_kind := %s; b_svc := %s; b_port := {| bp_name := %s; bp_num := %s |}; b_clusterip := %s; b_subsel := %s |}" % (
        KIND[b["kind"]], C.cq_str(b["svc"]), C.cq_str(b["port_name"]), C.cq_z(b["port_num"]), C.cq_bool(b["cluster_ip"]),
        cq_labels(b.get("subsel")))


def is_dyn(c):
    return c.get("fam") == "dyn"


def is_res(c):
    return c.get("fam") == "res"


def new_cluster(c):
    """the cluster a dyn / res case ends in"""
    if not c.get("dyn"):
        return c
    return {"svcs": c["dyn"]["svcs2"], "slices": c["dyn"]["slices2"], "pods": c.get("pods")}


def probe_fixes(cases):
    """which of the proposed repairs F40 / F41 / F42 the tree under test contains, read off the
    corpus witnesses the harness runs first (the model variant the correspondence follows)"""
    fx = {"fx40": False, "fx41": False, "fx42": False}
    for c in cases:
        if not isinstance(c.get("obs"), list) or not c["obs"]:
            continue
        if c["class"] == "corpus-unnamed-port":
            fx["fx40"] = all(o.get("entry") == [] for o in c["obs"])
        elif c["class"] == "corpus-dup-address":
            fx["fx41"] = all(len(o.get("entry") or []) == len(set(o.get("entry") or [])) for o in c["obs"])
        elif c["class"] == "corpus-externalname":
            fx["fx42"] = c["obs"][-1].get("entry") == ["ext.example.com:80"]
    return fx


def cq_fixes(fx):
    return "{| fx40 := %s; fx41 := %s; fx42 := %s |}" % (C.cq_bool(fx["fx40"]), C.cq_bool(fx["fx41"]), C.cq_bool(fx["fx42"]))


def rows_of(c):
    """one Coq row per backend of the case; row id = case id * 100 + backend index"""
    out = []
    if is_res(c):
        items = c["res"]["items"]
        for i, (it, o) in enumerate(zip(items, c["obs"]["items"])):
            # ExternalNameSvcs is keyed by service: is there another backend of the resource on the same service?
            shared = any(j != i and x["b"]["svc"] == it["b"]["svc"] and (x["ns"] == it["ns"] or c["res"]["kind"] in ("ing", "ming"))
                         for j, x in enumerate(items))
            out.append("res_item_case %d fx %s false cl_%d %s %s %s %s %s %s %s %s" % (
                c["id"] * 100 + i, C.cq_bool(c["plus"]), c["id"], C.cq_str(it["ns"]), cq_backend(it["b"]), C.cq_bool(shared),
                C.cq_list([C.cq_str(x) for x in o.get("entry") or []]), C.cq_bool(o["ext_svc"]),
                C.cq_list([C.cq_str(x) for x in o.get("servers") or []]), C.cq_bool(o["was_pushed"]),
                C.cq_list([C.cq_str(x) for x in o.get("pushed") or []])))
        return out
    if is_dyn(c):
        # one resource per backend (several kinds may share one Service): one row per backend
        return ["dyn_case %d fx %s false cl_%d %s %s %s" % (
            c["id"] * 100 + i, C.cq_bool(c["plus"]), c["id"], C.cq_str(NS), cq_backend(b),
            C.cq_list([C.cq_str(x) for x in per.get("running") or []]))      # what NGINX balances over (last reload + API calls)
            for i, (b, per) in enumerate(zip(c["backends"], c["obs"]["per"]))]
    for i, (b, o) in enumerate(zip(c["backends"], c["obs"])):
        out.append("backend_case %d fx %s %s cl_%d %s %s %s %s %s %s %s %s" % (
            c["id"] * 100 + i, C.cq_bool(c["plus"]), C.cq_bool(c["resolver"]), c["id"], C.cq_str(NS), cq_backend(b),
            C.cq_z(o["err"]), C.cq_list(["(%s, %s)" % (C.cq_str(a), C.cq_str(p)) for a, p in o.get("eps") or []]),
            C.cq_bool(o["external"]), C.cq_list([C.cq_str(x) for x in o.get("entry") or []]), C.cq_bool(o["ext_svc"]),
            C.cq_list([C.cq_str(x) for x in o.get("servers") or []])))
    return out


def usable(c):
    if is_res(c):
        o = c.get("obs")
        return isinstance(o, dict) and not o.get("error") and not o.get("panic") and len(o.get("items") or []) == len(c["res"]["items"])
    if is_dyn(c):
        o = c.get("obs")
        return isinstance(o, dict) and not o.get("error") and not o.get("panic") and len(o.get("per") or []) == len(c["backends"])
    return isinstance(c.get("obs"), list)


def evaluate(run, cases, tag, fx):
    cases = [c for c in cases if usable(c)]
    if not cases:
        return []
    body = "From NIC Require Import Endpoints.Model Endpoints.Spec Endpoints.Cases.\n"
    body += "Definition fx : Fixes := %s.\n" % cq_fixes(fx)
    rows = []
    for c in cases:
        body += "Definition cl_%d : Cluster :=\n  %s.\n" % (c["id"], cq_cluster(new_cluster(c) if (is_dyn(c) or is_res(c)) else c))
        rows += rows_of(c)
    body += "Definition results : list (list Z) := Eval vm_compute in\n  [" + ";\n   ".join(rows) + "].\nPrint results.\n"
    path = os.path.join(C.WORK, "cases", "C14_%s.v" % tag)
    C.write_cases_v(path, body)
    rc, out = C.coqc(path)
    res = C.parse_z_lists(out, "results")
    if rc != 0 or res is None or len(res) != len(rows):
        raise C.TieBroken("coqc could not evaluate the C14 cases file (%s): %s" % (path, out[-1500:]))
    return res


def canon_backend(c, b):
    return {"plus": c["plus"], "resolver": c["resolver"], "svcs": c["svcs"], "slices": c["slices"], "pods": c["pods"], "backend": b}


def judge(run, cases, res):
    byid = {c["id"]: c for c in cases}
    for c in cases:
        if not usable(c):
            run.failing({"kind": "harness-case-error"}, [c], "the harness could not run case %d on the implementation: %s"
                        % (c["id"], json.dumps(c.get("obs"))[:300]), theorem="correspondence harness c14", found_input=False)
    bt = run.cov.setdefault("by_branch", {})
    for row in res:
        rid, agree, spec, nontrivial, tag, kind = row
        c = byid[rid // 100]
        if is_dyn(c):
            judge_dyn(run, c, rid % 100, agree, spec, nontrivial, tag, kind)
            continue
        if is_res(c):
            judge_res(run, c, rid % 100, agree, spec, nontrivial, tag, kind)
            continue
        b, o = c["backends"][rid % 100], c["obs"][rid % 100]
        one = dict(c, backends=[b], obs=[o])
        run.count_case(canon_backend(c, b), bool(nontrivial))
        run.cov["traces_validated_against_impl"] += 1
        bt[str(tag)] = bt.get(str(tag), 0) + 1
        if o.get("panic"):
            run.failing({"kind": "panic", "backend": b["kind"]}, [one], "the implementation panicked on case %d: %s" % (c["id"], o["panic"][:200]),
                        theorem="Endpoints.Cases.spec_kind")
        elif not o.get("has_entry") or not o.get("upstream"):
            run.failing({"kind": "backend-disappeared", "backend": b["kind"]}, [one],
                        "backend %s of case %d has no Endpoints entry / no upstream block (has_entry=%s upstream=%s)"
                        % (b["kind"], c["id"], o.get("has_entry"), o.get("upstream")), theorem="C14_empty_is_error_backend")
        elif not spec:
            sig = {"kind": FAILKIND.get(kind, "other")}
            if kind in (6, 9):
                sig["backend"] = b["kind"]
            run.failing(sig, [one], "C14 specification fails on the implementation's own result (%s; case %d backend %d %s -> %s:%s%s): entry=%s servers=%s"
                        % (FAILKIND.get(kind, "other"), c["id"], rid % 100, b["kind"], b["svc"], b["port_name"] or b["port_num"],
                           " subselector" if b.get("subsel") else "", json.dumps(o["entry"])[:200], json.dumps(o["servers"])[:200]),
                        theorem="Endpoints.Cases.spec_kind / Endpoints.Spec.exact_ok")
        elif not agree:
            run.failing({"kind": "correspondence", "backend": b["kind"]}, [one],
                        "model and implementation disagree (case %d backend %d %s) but the specification holds on it: obs=%s"
                        % (c["id"], rid % 100, b["kind"], json.dumps(o)[:400]),
                        theorem="correspondence Endpoints.Model ~ internal/k8s/controller.go endpoint resolution", found_input=False)


def judge_res(run, c, i, agree, spec, nontrivial, tag, kind):
    it, o, rk = c["res"]["items"][i], c["obs"]["items"][i], c["res"]["kind"]
    b = it["b"]
    fin = new_cluster(c)
    run.count_case({"fam": "res", "plus": c["plus"], "svcs": fin["svcs"], "slices": fin["slices"], "pods": c["pods"], "res": c["res"], "item": i},
                   bool(nontrivial))
    run.cov["traces_validated_against_impl"] += 1
    bt = run.cov.setdefault("by_branch", {})
    bt[str(tag)] = bt.get(str(tag), 0) + 1
    rs = run.cov.setdefault("res_by_kind", {})
    key = "%s:%s:%d-backends" % (rk, "plus" if c["plus"] else "oss", len(c["res"]["items"]))
    rs[key] = rs.get(key, 0) + 1
    where = "res case %d (%s, %d backends) backend %d [%s in namespace %s -> %s:%s]" % (
        c["id"], rk, len(c["res"]["items"]), i, it["owner"], it["ns"], b["svc"], b["port_name"] or b["port_num"])
    if not o.get("has_entry") or not o.get("upstream"):
        run.failing({"kind": "backend-disappeared", "backend": b["kind"], "fam": "res"}, [c],
                    "%s has no Endpoints entry / no upstream block (has_entry=%s upstream=%s)" % (where, o.get("has_entry"), o.get("upstream")),
                    theorem="C14_empty_is_error_backend")
    elif not spec:
        sig = {"kind": FAILKIND.get(kind, "other")}
        if kind in (6, 7, 9):
            sig["backend"] = b["kind"]
            sig["fam"] = "res"
        run.failing(sig, [c], "%s: C14 fails on the implementation's own result (%s): entry=%s file servers=%s pushed=%s%s"
                    % (where, FAILKIND.get(kind, "other"), json.dumps(o["entry"])[:160], json.dumps(o["servers"])[:160],
                       json.dumps(o["pushed"])[:160], "" if o["was_pushed"] else " (no API call)"),
                    theorem="Endpoints.Cases.res_item_case / C14_ingress_no_leak, C14_vs_no_leak, C14_push_is_file")
    elif not agree:
        run.failing({"kind": "correspondence", "backend": b["kind"], "fam": "res"}, [c],
                    "%s: model and implementation disagree but the specification holds: obs=%s" % (where, json.dumps(o)[:400]),
                    theorem="correspondence Endpoints.Model (resource level) ~ createXEx + Configurator", found_input=False)


def judge_dyn(run, c, i, agree, spec, nontrivial, tag, kind):
    b, o, op = c["backends"][i], c["obs"], c["dyn"]["op"]
    per = o["per"][i]
    kinds = "+".join(x["kind"] for x in c["backends"])
    shared = len(c["backends"]) > 1
    run.count_case({"fam": "dyn", "plus": c["plus"], "svcs": c["svcs"], "slices": c["slices"], "pods": c["pods"], "backends": c["backends"],
                    "i": i, "dyn": c["dyn"], "api_fail": c.get("api_fail")}, bool(nontrivial) or per["before"] != per["running"])
    run.cov["traces_validated_against_impl"] += 1
    bt = run.cov.setdefault("by_branch", {})
    bt[str(tag)] = bt.get(str(tag), 0) + 1
    dy = run.cov.setdefault("dyn_by_op", {})
    key = "%s:%s:%s%s:%s" % (op, "plus" if c["plus"] else "oss", "shared" if shared else "single", ":api-failure" if c.get("api_fail") else "",
                             "changed" if per["before"] != per["running"] else "unchanged")
    if o["queued"] >= 3:
        run.cov["dyn_batches_of_3_or_more_tasks"] = run.cov.get("dyn_batches_of_3_or_more_tasks", 0) + 1
    dy[key] = dy.get(key, 0) + 1
    where = "dyn case %d backend %d of [%s] %s (%s -> %s:%s, change `%s`, events %s, %d task(s) queued, %d synced, %d reload(s), %d API call(s) of which %d failed%s)" % (
        c["id"], i, kinds, "NGINX Plus" if c["plus"] else "NGINX OSS", b["kind"], b["svc"], b["port_name"] or b["port_num"], op,
        o["events"] if len(o["events"]) < 5 else o["events"][:4] + ["..."], o["queued"], o["synced"], o.get("reloads", 0), o.get("api_calls", 0),
        o.get("api_fails", 0), (", API failure injected for backend(s) %s" % c["api_fail"]) if c.get("api_fail") else "")
    if not per.get("has_file"):
        run.failing({"kind": "backend-disappeared", "backend": b["kind"], "fam": "dyn"}, [c],
                    "%s: the upstream block of the %s is gone after the events" % (where, b["kind"]), theorem="C14_empty_is_error_backend")
    elif not spec:
        if kind in (1, 2, 4):          # a known defect of the resolution itself, on the new cluster
            sig = {"kind": FAILKIND[kind]}
        else:
            stale = per["before"] == per["running"]
            sig = {"kind": "stale-after-event" if stale else "wrong-after-event", "op": op, "enqueued": o["queued"] > 0}
            if per["running"] != per["after"]:
                sig["file_not_loaded"] = True      # the file on disk differs from what NGINX uses
            if shared:
                # other resources of the case (other kinds, same Service) did follow the change?
                sig["shared_service"] = True
        run.failing(sig, [c], "%s: NGINX balances over %s (before the events: %s; the file on disk says %s), which is not the resolution on the cluster after the events (%s)"
                    % (where, json.dumps(per["running"])[:200], json.dumps(per["before"])[:200], json.dumps(per["after"])[:200], FAILKIND.get(kind, "other")),
                    theorem="Endpoints.Cases.dyn_case / C14_exact on the cluster after the events")
    elif not agree:
        run.failing({"kind": "correspondence", "backend": b["kind"], "fam": "dyn"}, [c],
                    "%s: the configured servers %s differ from the model's rendering on the new cluster although the specification holds"
                    % (where, json.dumps(per["running"])[:300]),
                    theorem="correspondence Endpoints.Model ~ event handlers + sync", found_input=False)


TRUSTED = [
    "Rocq 8.16.1 kernel incl. vm_compute (no native_compute); no axioms (Print Assumptions: closed)",
    "hand-written model coq/Endpoints/Model.v of getEndpointsForIngressBackend / getEndpointsForPortFromEndpointSlices / getTargetPort / findPort / "
    "selectEndpointSlicesForPort / filterReadyEndpointsFrom / the subselector variant / the useClusterIP branches / the placeholder servers, tied on every "
    "run by the correspondence harness harness/overlay/internal/verifh/c14 (real LoadBalancerController over populated cache stores; real "
    "createIngressEx, createVirtualServerEx, createTransportServerEx, generateNginxCfg, GenerateVirtualServerConfig, generateTransportServerConfig)",
    "client-go cache.Store / Indexer and labels.Selector are called, label matching is also modelled; Go net.JoinHostPort and strconv.Itoa are modelled",
    "static family: the nginx templates are not executed, the observable is the list of server entries of the generated upstream structure; dynamic "
    "family: the production templates are executed by the real Configurator and the `server` lines inside `upstream` blocks are parsed from the file",
    "dynamic family: the harness plays the shared informer (store update, then the real handler) and the queue worker (Get, real lbc.sync, Done); "
    "fake clientsets, informers never started; NGINX itself is a stand-in behind the Manager interface: it balances over what the files said at "
    "the last Reload, overwritten per upstream by every successful NGINX Plus API call since (API failures are injected per upstream)",
]


def check(run):
    n = 840 if run.tier == "quick" else 18000
    run.proof_obligations()
    binary = C.go_build("c14")
    out = os.path.join(C.WORK, "cases", "c14_%s.jsonl" % run.tier)
    rc, log = C.run_harness(binary, ["-seed", str(run.seed), "-n", str(n), "-out", out, "-tier", run.tier], timeout=3000)
    if rc != 0:
        raise C.TieBroken("c14 harness failed rc=%d: %s" % (rc, log[-1500:]))
    cases = C.read_jsonl(out)
    fx = probe_fixes(cases)
    run.cov["model_variant"] = fx
    shard = 150
    for k in range(0, len(cases), shard):
        part = cases[k:k + shard]
        judge(run, part, evaluate(run, part, "%s_%d" % (run.tier, k // shard), fx))
    for c in cases[:1] + [x for x in cases if x["class"] == "res"][:1] + [x for x in cases if x["class"] == "dyn"][:1]:
        run.sample(c)
    run.cov["rule"] = ("a corpus of 9 fixed clusters (witnesses of the *_refuted theorems and the corner cases named in the property) followed by generated "
                       "clusters: 1-3 services (numeric / named / defaulted target ports, 1-3 ports, unnamed single port, ExternalName, selector-less, IPv4 / "
                       "IPv6 / None cluster IP), 0-4 pods per service (homogeneous or heterogeneous named container ports, missing ports, other protocol), "
                       "slices built as the EndpointSlice controller builds them (grouped by resolved port vector, split into several slices) and then perturbed "
                       "(duplicated endpoints with the same / another / no pod name and other readiness, foreign slices of another service or namespace with the "
                       "same ports, slices with other port numbers, the same number twice, ports without number, repeated addresses); NGINX OSS and Plus; 1-4 "
                       "backends per cluster: Ingress (rule path or default backend, numeric or named port), VirtualServer, VirtualServerRoute (with "
                       "sub-selectors), TransportServer, with and without cluster-IP mode, also missing services / ports.  One evaluation = one backend of one "
                       "cluster: the model is compared with getEndpointsForIngressBackend / getEndpointsForSubselector, with the Endpoints entry of the extended "
                       "resource and with the server entries of the generated upstream; the specification is evaluated on the entry and the server entries. "
                       "A case is distinct by cluster + backend; a case is non-trivial when its Endpoints entry is not empty.  "
                       "Resource family (n/3 cases + the shapes of two seeded changes): ONE resource with 2-5 backends -- an Ingress (default backend + paths on "
                       "two hosts), a master/minion pair, a VirtualServer with VirtualServerRoutes in its own and in another namespace (same-named Services "
                       "with other pods in both namespaces), a TransportServer -- in which any subset of the Services is missing / without ready endpoints / "
                       "ExternalName / lacks the port, in any order; built by the real createXEx, written by the real Configurator, then the cluster changes and "
                       "the real UpdateEndpoints / UpdateEndpointsMergeableIngress / UpdateEndpointsForVirtualServers / UpdateEndpointsForTransportServers run "
                       "over a recording manager; per backend: its Endpoints entry, the server lines of ITS upstream block in the file and the servers pushed for "
                       "ITS upstream through UpdateServersInPlus / UpdateStreamServersInPlus must be the single-backend resolution in the owner's namespace "
                       "(res_by_kind counts backends per resource kind).  Dynamic family (n/4 cases + the seeded scenarios as fixed cases): a controller built by NewLoadBalancerController over a real "
                       "Configurator (production templates) over a manager stand-in that IS the NGINX process: it balances over what the files said at the last Reload, "
                       "overwritten per upstream by every successful NGINX Plus API call since; API failures are injected per upstream; CreateConfig reports like "
                       "LocalManager whether the file changed.  One to three resources are added and synced: of DIFFERENT kinds (Ingress, VirtualServer, "
                       "VirtualServerRoute, TransportServer, any order) sharing one Service half of the time, or of the SAME kind on one Service -- identical, or "
                       "depending on different endpoints (stable / canary sub-selectors, one in cluster-IP mode, other ports of the Service with one slice per port) so "
                       "that an event changes the file of the first / a middle / the last one only.  Then the cluster changes (targetPort of the Service + slice "
                       "ports rewritten in place; one slice port number; readiness; addresses; the service-name label; slice deleted / added; service port number; "
                       "bursts of 3-5 EndpointSlice events that put sync() into batch mode), delivered as watch events to the REAL createServiceHandlers / "
                       "createEndpointSliceHandlers; the REAL work queue is drained with the REAL lbc.sync.  NGINX OSS and Plus alike: the servers the stand-in RUNS "
                       "for EVERY resource's upstream must be the resolution on the cluster AFTER the events (dyn_by_op counts, per change and shared/single, how many altered the servers).")
    run.cov["trusted_base"] = TRUSTED
    run.assumptions += ["the correspondence follows the code variant of the tree under test (repairs F40 / F41 / F42 present or not, read off the corpus "
                        "witnesses: model_variant); the specification S does not depend on the variant",
                        "the pod lister returns pods in Go map order; the model is compared under every choice of the first pod",
                        "the nginx templates turn every server entry of the generated upstream into exactly one `server` line (not executed here)",
                        "owner type/name of a pod endpoint is a function of the pod name (no OwnerReferences are generated)"]


def replay(run, path):
    binary = C.go_build("c14")
    out = os.path.join(C.WORK, "cases", "c14_replay.jsonl")
    rc, log = C.run_harness(binary, ["-replay", os.path.abspath(path), "-out", out], timeout=600)
    if rc != 0:
        raise C.TieBroken("c14 harness failed on replay: %s" % log[-1500:])
    cases = C.read_jsonl(out)
    for i, c in enumerate(cases):      # ids may repeat inside a replay file (one backend per stored case)
        c["id"] = i
    probe = os.path.join(C.WORK, "cases", "c14_probe.jsonl")
    rc, log = C.run_harness(binary, ["-n", "0", "-out", probe], timeout=600)
    if rc != 0:
        raise C.TieBroken("c14 harness failed on the corpus: %s" % log[-1500:])
    fx = probe_fixes(C.read_jsonl(probe))
    print("model variant followed by the correspondence: %s" % fx)
    res = evaluate(run, cases, "replay", fx)
    byid = {c["id"]: c for c in cases}
    for r in res:
        c = byid[r[0] // 100]
        if is_res(c):
            print("replay res case %d backend %d: impl obs=%s  model-agrees=%d spec=%d failure-kind=%s" % (
                r[0] // 100, r[0] % 100, json.dumps(c["obs"]["items"][r[0] % 100])[:600], r[1], r[2], FAILKIND.get(r[5], "none")))
            continue
        if is_dyn(c):
            print("replay dyn case %d backend %d (%s): events=%s queued=%d impl obs=%s  model-agrees=%d spec=%d failure-kind=%s" % (
                r[0] // 100, r[0] % 100, c["backends"][r[0] % 100]["kind"], c["obs"]["events"], c["obs"]["queued"],
                json.dumps(c["obs"]["per"][r[0] % 100])[:400], r[1], r[2], FAILKIND.get(r[5], "none")))
            continue
        print("replay case %d backend %d: impl obs=%s  model-agrees=%d spec=%d failure-kind=%s" % (
            r[0] // 100, r[0] % 100, json.dumps(c["obs"][r[0] % 100])[:500], r[1], r[2], FAILKIND.get(r[5], "none")))
    judge(run, cases, res)
