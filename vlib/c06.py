"""C06 -- accepted resources cannot alter the structure of the NGINX configuration."""
import os, re, json, concurrent.futures, time
from . import common as C
from .c07 import cq_packed

SHARD = 40          # cases per coqc call
WORKERS = 12

# string leaves that no fixture can populate with snippets / App Protect disabled; they are named in the evidence
ALLOWED_UNCOVERED = [
    r'^Ingress\.spec\.(defaultBackend|rules\[\]\.http\.paths\[\]\.backend)\.resource\.',   # resource backends are rejected by validateIngress
    r'^Policy\.spec\.waf\.',                                                                # WAF needs App Protect (not modelled)
]
# annotation keys that appear as string literals in internal/configs but are never read from an Ingress
ANNOTATION_NOT_READ = {
    "appprotect.f5.com/app_protect_enable", "appprotect.f5.com/app_protect_policy", "appprotect.f5.com/app_protect_security_log",
    "appprotect.f5.com/app_protect_security_log_enable",      # entries of minionDenylist only (underscore spelling)
    "nginx.org/ingress-controller",
}


def bytes_of(xs):
    return bytes(xs or [])


def full(base, fd):
    """reconstruct the bytes of one file from its difference against the base rendering"""
    mid = bytes_of(fd["mid"])
    if fd["base"] < 0:
        return mid
    b = bytes_of(base["files"][fd["base"]]["mid"])
    return b[:fd["plen"]] + mid + b[len(b) - fd["slen"]:]


def file_pairs(base, c, against="auto"):
    """pairs (name, base_index, real_fd, harmless_fd or None=the base file itself); None when the two renderings
    differ in their file sets.  against: "neutral" (needs obs.hfiles), "original", "auto" (neutral if present)"""
    fs = c["obs"].get("files") or []
    hf = c["obs"].get("hfiles")
    if against == "neutral" or (against == "auto" and hf is not None):
        if hf is None or [f["name"] for f in fs] != [f["name"] for f in hf]:
            return None
        return [(f["name"], f["base"], f, h) for f, h in zip(fs, hf)]
    names = [f["name"] for f in base["files"]]
    if [f["name"] for f in fs] != names or any(f["base"] < 0 for f in fs):
        return None
    return [(f["name"], f["base"], f, None) for f in fs]


def coq_file(bname, fd):
    if fd is None:
        return bname
    if fd["base"] < 0:
        return cq_packed(bytes_of(fd["mid"]))
    return "(splice %s %d %d %s)" % (bname, fd["plen"], fd["slen"], cq_packed(bytes_of(fd["mid"])))


def evaluate_shard(base, cases, tag):
    body = "From Coq Require Import Uint63.\nFrom NIC Require Import Lex.Pack Lex.Lexer Tmpl.LexAux Tmpl.C06Cases.\n"
    for i, f in enumerate(base["files"] or []):
        body += "Definition b%d : string := %s.\n" % (i, cq_packed(bytes_of(f["mid"])))
    rows = []

    def coq_pairs(pairs):
        if pairs is None:
            return "None"
        items = []
        for name, bi, fd, hd in pairs:
            bn = "b%d" % bi if bi >= 0 else '""'
            hb = bn if (hd is None or hd["base"] >= 0) else '""'
            items.append("(%s, %s)" % (coq_file(bn, fd), coq_file(hb, hd)))
        return "(Some [%s])" % "; ".join(items)

    for c in cases:
        vs_n = coq_pairs(file_pairs(base, c, "neutral")) if c["obs"].get("hfiles") is not None else "None"
        # history cases are judged against the fresh controller only (the unmodified fixture is a different cluster state)
        vs_o = "None" if c.get("history") else coq_pairs(file_pairs(base, c, "original"))
        rows.append("inj_case %d %d %s %s" % (c["id"], c["obs"]["go_verdict"], vs_n, vs_o))
    body += "Definition results : list (list Z) := Eval vm_compute in\n [" + ";\n  ".join(rows) + "].\nPrint results.\n"
    path = os.path.join(C.WORK, "cases", "C06_%s.v" % tag)
    C.write_cases_v(path, body)
    rc, out = C.coqc(path, timeout=1500)
    res = C.parse_z_lists(out, "results")
    if rc != 0 or res is None or len(res) != len(cases):
        raise C.TieBroken("coqc could not evaluate the C06 cases file (%s): %s" % (path, out[-1500:]))
    return {r[0]: r for r in res}


def evaluate(bases, cases, tag):
    by_base = {}
    for c in cases:
        if c["obs"].get("error") or c["obs"].get("panic") or not c["obs"].get("accepted") or not c["obs"].get("attached"):
            continue
        by_base.setdefault(c["base_id"], []).append(c)
    shards = []
    for bid, cs in sorted(by_base.items()):
        for k in range(0, len(cs), SHARD):
            shards.append((bases[bid], cs[k:k + SHARD], "%s_%d_%d" % (tag, bid, k // SHARD)))
    rows = {}
    with concurrent.futures.ThreadPoolExecutor(max_workers=WORKERS) as ex:
        for r in ex.map(lambda s: evaluate_shard(*s), shards):
            rows.update(r)
    return rows


def lex_events(b):
    """python transcription of Lex.Lexer.run, used ONLY to point the violation message at the place where the two
    renderings diverge (never for a verdict): list of (event, offset), final state"""
    B,BARE,BESC,VAR,DQ,DQE,SQ,SQE,COM,NS,ERR = range(11)
    q=B; ev=[]
    def bare(c,i):
        nonlocal q
        if c==0x5c: q=BESC
        elif c==0x24: q=VAR
        elif c in (32,9,13,10): ev.append(('T',i)); q=B
        elif c==0x3b: ev.append(('T',i)); ev.append((';',i)); q=B
        elif c==0x7b: ev.append(('T',i)); ev.append(('{',i)); q=B
        else: q=BARE
    for i,c in enumerate(b):
        if q==ERR: break
        elif q==COM:
            if c==10: q=B
        elif q==BESC: q=BARE
        elif q==DQE: q=DQ
        elif q==SQE: q=SQ
        elif q==NS:
            if c in (32,9,13,10): q=B
            elif c==0x3b: ev.append((';',i)); q=B
            elif c==0x7b: ev.append(('{',i)); q=B
            elif c==0x29: q=BARE
            else: ev.append(('!',i)); q=ERR
        elif q==B:
            if c in (32,9,13,10): pass
            elif c==0x3b: ev.append((';',i))
            elif c==0x7b: ev.append(('{',i))
            elif c==0x7d: ev.append(('}',i))
            elif c==0x23: q=COM
            elif c==0x5c: q=BESC
            elif c==0x22: q=DQ
            elif c==0x27: q=SQ
            elif c==0x24: q=VAR
            else: q=BARE
        elif q==VAR:
            if c==0x7b: q=VAR
            else: bare(c,i)
        elif q==BARE: bare(c,i)
        elif q==DQ:
            if c==0x5c: q=DQE
            elif c==0x22: ev.append(('T',i)); q=NS
        elif q==SQ:
            if c==0x5c: q=SQE
            elif c==0x27: ev.append(('T',i)); q=NS
    return ev,q
def divergence(real,harm,width=70):
    a,qa=lex_events(real); b,qb=lex_events(harm)
    sa=[e for e in a if e[0]!='T']; sb=[e for e in b if e[0]!='T']
    k=0
    while k<len(sa) and k<len(sb) and sa[k][0]==sb[k][0]: k+=1
    def around(buf,evs,k):
        if k<len(evs): off=evs[k][1]
        elif evs: off=evs[-1][1]
        else: off=0
        return buf[max(0,off-width):off+width//2].decode('latin1')
    ea=sa[k][0] if k<len(sa) else 'end(state %d)'%qa
    eb=sb[k][0] if k<len(sb) else 'end(state %d)'%qb
    return "structural event #%d is %s in the real rendering, %s in the harmless one; real: ...%r...  harmless: ...%r..."%(k,ea,eb,around(real,sa,k),around(harm,sb,k))


def norm_field(f):
    """the field a finding is about: VirtualServer routes / VirtualServerRoute subroutes (and the actions nested in their
    matches / splits) share one Go type and one validator, likewise the upstreams"""
    m = re.match(r'^VirtualServer(?:Route)?\.spec\.(?:sub)?routes\[\]\.(?:matches\[\]\.)?(?:splits\[\]\.)?(.*)$', f)
    if m:
        return "Route." + m.group(1)
    m = re.match(r'^VirtualServer(?:Route)?\.spec\.upstreams\[\]\.(.*)$', f)
    if m:
        return "Upstream." + m.group(1)
    return f


def path_kind(p):
    return "iregex" if p.startswith("~*") else "regex" if p.startswith("~") else "exact" if p.startswith("=") else "prefix"


def signature(c):
    """what a finding is matched on: the (normalized) field and, for the leaves of a route, the context selectors that decide
    which validator / rendering site applies: kind of the route path, kind of location, kind of action (harness leafContext).
    For the route path itself the path kind is that of the INJECTED value (the value chooses its own validator)."""
    sig = {"kind": "injection", "field": norm_field(c["field"])}
    m = re.match(r'^vsr?:(prefix|regex|iregex|exact):([a-z0-9+-]+):up=[a-z-]+:act=([a-z-]+)', c.get("ctx") or "")
    if m:
        sig["path_kind"], sig["loc"], sig["action"] = m.group(1), m.group(2), m.group(3)
        if sig["field"] == "Route.path":
            sig["path_kind"] = path_kind(bytes_of(c.get("value")).decode("latin1"))
    return sig


def slim(c):
    d = {k: v for k, v in c.items() if k != "obs"}
    o = dict(c["obs"])
    o["files"] = [{"name": f["name"], "changed_bytes": len(f["mid"])} for f in (o.get("files") or [])]
    o.pop("hfiles", None)
    d["obs"] = o
    d["value_text"] = bytes_of(c.get("value")).decode("latin1")
    d["harmless_text"] = bytes_of(c.get("harmless")).decode("latin1")
    return d


def context(base, c):
    """where the structural events of the two renderings diverge (diagnostic only)"""
    for against in ("neutral", "original"):
        if against == "neutral" and c["obs"].get("hfiles") is None:
            continue
        pairs = file_pairs(base, c, against)
        if not pairs:
            return "(the two renderings do not consist of the same files)"
        for name, bi, fd, hd in pairs:
            real = full(base, fd)
            harm = full(base, hd) if hd is not None else bytes_of(base["files"][bi]["mid"])
            a, qa = lex_events(real)
            b, qb = lex_events(harm)
            if [e[0] for e in a if e[0] != 'T'] != [e[0] for e in b if e[0] != 'T'] or qa != qb:
                return "%s: %s" % (name, divergence(real, harm))
    return ""


TRUSTED = [
    "Rocq 8.16.1 kernel incl. vm_compute (no native_compute); primitive 63-bit integers only to transport file bytes into the cases files (Lex/Pack.v), never in a theorem",
    "the NGINX tokenizer model coq/Lex/Lexer.v, written by hand from ngx_conf_read_token; no nginx binary or source in the sandbox, so it cannot be differentially tested",
    "the template translator harness/overlay/internal/verifh/c06t (text/template/parse + reflect on the data structs -> coq/gen/Templates.v) with its class tables c06/tab/tab.go: trusted to transcribe; mitigated by its round-trip self check on real renderings (every run) and by the fail-closed CUnknown class",
    "the hand transcription of the validator regular expressions in coq/Tmpl/Validators.v: compared with Go's regexp on a corpus on every run (hooks zz_verif_c06.go in internal/configs, internal/k8s, pkg/apis/configuration/validation)",
    "the controller-level family (histories.go): a referenced Policy replaced by a rejected one through the informer store and the real syncPolicy / getPolicies / createVirtualServerEx (recreate coalesced, recreate seen, update, rejected first); oracle = a fresh controller on the final cluster state",
    "the harness harness/overlay/internal/verifh/c06 and the hook internal/k8s/zz_verif_c06.go (controller assembled as in the unit tests, snippets disabled; real validators, Configuration, create*Ex glue, Configurator, templates; recording nginx.Manager)",
    "the approximation of API-server admission: Ingress rules of k8s.io/kubernetes/pkg/apis/networking/validation transcribed in admission.go; for the CRDs pattern/enum/minLength/maxLength of config/crd/bases/*.yaml (crd.go)",
    "the choice of harmless text: every byte that is structural for the lexer (; { } # quotes backslash $ backquote, control bytes, bytes >= 127) replaced by x, other white space by a space; when the validator rejects that, the fixture's original value",
    "Go text/template, regexp, regexp2, net/url, crypto/tls (called, not modelled)",
]


def judge(run, bases, cases, rows, verbose=False):
    for c in cases:
        o = c["obs"]
        base = bases.get(c["base_id"])
        if o.get("error"):
            run.failing({"kind": "harness-case-error", "field": c.get("field")}, [slim(c)],
                        "the harness could not run case %d on the implementation: %s" % (c["id"], o["error"][:300]),
                        theorem="harness c06", found_input=False)
            continue
        if o.get("panic"):
            run.failing({"kind": "panic", "field": c.get("field")}, [slim(c)],
                        "the code under test panicked on an accepted resource (case %d, %s = %r): %s" % (c["id"], c["field"], bytes_of(c["value"]).decode("latin1"), o["panic"][:300]),
                        theorem="harness c06")
            continue
        row = rows.get(c["id"])
        if row is None:
            if verbose:
                print("  case %d not evaluated: accepted=%s attached=%s reject=%s" % (c["id"], o.get("accepted"), o.get("attached"), o.get("reject")))
            continue
        cid, agree, spec, nontrivial, tag = row
        run.count_case({"fixture": c["fixture"], "plus": c["plus"], "path": c["path"], "obj": c["obj"], "value": c["value"]}, bool(nontrivial))
        run.cov["traces_validated_against_impl"] += 1
        fam = run.cov.setdefault("by_family", {})
        k = "%s:%s:tag=%d" % (c["field"].split(".")[0], "plus" if c["plus"] else "oss", tag)
        fam[k] = fam.get(k, 0) + 1
        if tag == 1:
            ar = run.cov.setdefault("argument_count_changes_by_field", {})
            ar[c["field"]] = ar.get(c["field"], 0) + 1
        if verbose:
            print("  case %d %s %s = %r: tag=%d spec=%d go=%d  %s" % (cid, c["fixture"], c["path"], bytes_of(c["value"]).decode("latin1"), tag, spec, o["go_verdict"], context(base, c)))
        if c.get("history") == "rejected-not-served":
            run.failing({"kind": "rejected-but-served", "field": norm_field(c["field"]), "ctx": c.get("ctx") or ""}, [slim(c)],
                        "the REAL validator rejects %s = %r [context %s] (fixture %s/%s), yet the controller path serves the resource: what is rendered is not what is "
                        "rendered without the resource%s: %s"
                        % (c["path"], bytes_of(c["value"]).decode("latin1"), c.get("ctx") or "-", c["fixture"], "plus" if c["plus"] else "oss",
                           " -- and the structure differs" if not spec else "", context(base, c)),
                        theorem="premise of C06: only validated resources reach the generator (Configuration.AddOrUpdate* path)")
            continue
        if c.get("history"):
            hsig = {"kind": "stale-validation", "field": norm_field(c["field"]), "history": c["history"]}
            val = bytes_of(c["value"]).decode("latin1")
            fam["history:%s:tag=%d" % (c["history"], tag)] = fam.get("history:%s:tag=%d" % (c["history"], tag), 0) + 1
            if not spec or o.get("raw") or (o.get("reject") or "").startswith("history-dependent"):
                run.failing(hsig, [slim(c)],
                            "controller history %s: the Policy behind %s was replaced by one with the REJECTED value %r, yet what the controller renders differs from "
                            "what a fresh controller renders from the same cluster state%s%s: %s"
                            % (c["history"], c["field"], val, " -- the structure differs" if not spec else "",
                               " -- the rejected value is in the generated file" if o.get("raw") else "", context(base, c)),
                            theorem="history independence of validation (Tmpl.C06Cases.spec_ok_file against a fresh controller)")
            continue
        if spec:
            class_violations(run, "fixture %s/%s, %s = %r" % (c["fixture"], "plus" if c["plus"] else "oss", c["path"], bytes_of(c["value"]).decode("latin1")),
                             o.get("class_violations"), c)
        if not spec:
            run.failing(signature(c), [slim(c)],
                        "structure of the generated configuration changed by an ACCEPTED value of %s [context %s] (fixture %s/%s, %s = %r, harmless %s %r): %s"
                        % (c["field"], c.get("ctx") or "-", c["fixture"], "plus" if c["plus"] else "oss", c["path"], bytes_of(c["value"]).decode("latin1"), c["harmless_kind"],
                           bytes_of(c["harmless"]).decode("latin1"), context(base, c)),
                        theorem="Tmpl.C06Cases.spec_ok_file (structural events of Lex.Lexer.run)")
        elif not agree:
            run.failing({"kind": "prescreen-disagrees", "field": c["field"]}, [slim(c)],
                        "the Go transcription of the lexer (harness pre-screen) and Lex.Lexer disagree on case %d (go=%d rocq=%d)" % (cid, o["go_verdict"], tag),
                        theorem="correspondence lexgo.go ~ Lex/Lexer.v", found_input=False)


def regex_correspondence(run, regs, sink):
    """X for the hand-transcribed validator regexes: Tmpl.Validators.validator_matches against Go's regexp on every
    one-byte perturbation (all 256 byte values, insertion and replacement, every position) of accepted samples"""
    if not regs:
        return
    body = "From NIC Require Import Tmpl.Regex Tmpl.Validators Tmpl.C06Regex.\n"
    rows, idx = [], []
    for k, r in enumerate(regs):
        for j, w in enumerate(r.get("rows") or []):
            rows.append("%s %s %s %d %d \"%s\"" % ("upper_row" if r.get("upper") else "sweep_row", C.cq_str(r["name"]),
                                                     C.cq_bytes(list(w["sample"] or [])), w["pos"], w["mode"], w["bits"]))
            idx.append((k, j))
    chunks = [rows[i:i + 120] for i in range(0, len(rows), 120)]
    for ci, ch in enumerate(chunks):
        body += "Definition results%d : list (list Z) := Eval vm_compute in [[" % ci + ";\n ".join(ch) + "]].\nPrint results%d.\n" % ci
    path = os.path.join(C.WORK, "cases", "C06_regex_%s.v" % run.tier)
    C.write_cases_v(path, body)
    rc, out = C.coqc(path, timeout=900)
    flat = []
    for ci in range(len(chunks)):
        res = C.parse_z_lists(out, "results%d" % ci)
        if rc != 0 or not res:
            raise C.TieBroken("coqc could not evaluate the C06 regex correspondence file (%s): %s" % (path, out[-1500:]))
        flat += res[0]
    if len(flat) != len(rows):
        raise C.TieBroken("C06 regex correspondence: %d verdicts for %d rows" % (len(flat), len(rows)))
    bad, per = {}, {}
    for (k, j), v in zip(idx, flat):
        r = regs[k]
        name = r["name"] + "@" + r["source"]
        per[name] = per.get(name, 0) + 256
        if v != 0:
            w = r["rows"][j]
            smp = bytes_of(w["sample"])
            if r.get("upper"):
                acc = smp[:w["pos"]] + bytes([v - 1]) + smp[w["pos"] + w["mode"]:]
                bad.setdefault(name, []).append("the real validator ACCEPTS %r, which is outside the upper bound %s" % (acc.decode("latin1"), r["name"]))
            else:
                bad.setdefault(name, []).append("sample %r %s at %d: %s byte values disagree" % (
                    smp.decode("latin1"), "insert" if w["mode"] == 0 else "replace", w["pos"], "name unknown," if v < 0 else v))
    sink.append(("cov", "regex_correspondence", {"regexes": len(regs), "strings": sum(per.values()), "rows_with_disagreement": sum(len(v) for v in bad.values())}))
    for r in regs:
        name = r["name"] + "@" + r["source"]
        b = bad.get(name)
        ok = not b and len(r.get("rows") or []) > 0
        if r.get("upper"):
            sink.append(("obl", ok, "parser %s accepts nothing outside its upper bound (Tmpl.Validators) on %d one-byte perturbations of samples and near misses" % (name, per.get(name, 0)),
                         "%s" % (b[:4] if b else "no sample")))
            continue
        sink.append(("obl", ok, "regex transcription %s agrees with Go regexp on %d one-byte perturbations of accepted samples" % (name, per.get(name, 0)),
                     "Tmpl.Validators disagrees with the real regular expression: %s" % (b[:4] if b else "no sample of this expression is accepted any more")))


def selector_correspondence(run, sels, sink):
    """X for the selector table of action.proxy.rewritePath (Tmpl.Validators.rewrite_path_lang / rewrite_path_site):
    per kind of route path x kind of location, the real validator's verdict on every one-byte perturbation of accepted
    samples against rewrite_path_accepts, and the tokenizer state where the real generator printed the value against
    rewrite_path_site"""
    if not sels:
        return
    body = "From NIC Require Import Lex.Lexer Tmpl.Regex Tmpl.Validators Tmpl.C06Regex.\n"
    rows, idx = [], []
    for k, r in enumerate(sels):
        for j, w in enumerate(r.get("rows") or []):
            rows.append("selector_sweep_row %s %s %s %d %d \"%s\"" % (r["kind"], r["loc"], C.cq_bytes(list(w["sample"] or [])), w["pos"], w["mode"], w["bits"]))
            idx.append((k, j))
        rows.append("selector_site_row %s %s %s" % (r["kind"], r["loc"], r["site"] if r.get("site") else "QErr"))
        idx.append((k, -1))
    chunks = [rows[i:i + 120] for i in range(0, len(rows), 120)]
    for ci, ch in enumerate(chunks):
        body += "Definition results%d : list (list Z) := Eval vm_compute in [[" % ci + ";\n ".join(ch) + "]].\nPrint results%d.\n" % ci
    path = os.path.join(C.WORK, "cases", "C06_selectors_%s.v" % run.tier)
    C.write_cases_v(path, body)
    rc, out = C.coqc(path, timeout=900)
    flat = []
    for ci in range(len(chunks)):
        res = C.parse_z_lists(out, "results%d" % ci)
        if rc != 0 or not res:
            raise C.TieBroken("coqc could not evaluate the C06 selector correspondence file (%s): %s" % (path, out[-1500:]))
        flat += res[0]
    bad, site_ok, n = {}, {}, {}
    for (k, j), v in zip(idx, flat):
        r = sels[k]
        name = "%s x %s" % (r["kind"], r["loc"])
        if j < 0:
            site_ok[name] = (v == 1)
            continue
        n[name] = n.get(name, 0) + 256
        if v != 0:
            w = r["rows"][j]
            bad.setdefault(name, []).append("sample %r %s at %d: %s byte values disagree" % (
                bytes_of(w["sample"]).decode("latin1"), "insert" if w["mode"] == 0 else "replace", w["pos"], v))
    sink.append(("cov", "selector_table", {"field": "action.proxy.rewritePath", "rows": len(sels), "strings": sum(n.values())}))
    for r in sels:
        name = "%s x %s" % (r["kind"], r["loc"])
        b = bad.get(name)
        sink.append(("obl", not b and not r.get("error") and n.get(name, 0) > 0,
                     "selector table: the validator language of action.proxy.rewritePath for %s is Tmpl.Validators.rewrite_path_lang (%d perturbations)" % (name, n.get(name, 0)),
                     "the real validator (ValidateVirtualServer) and rewrite_path_accepts disagree: %s %s" % (b[:4] if b else "", r.get("error") or "")))
        sink.append(("obl", bool(site_ok.get(name)) and not r.get("error"),
                     "selector table: the rendering site of action.proxy.rewritePath for %s is Tmpl.Validators.rewrite_path_site" % name,
                     "the real generator printed the value in tokenizer state %s %s" % (r.get("site") or "(not found)", r.get("error") or "")))


def genpath_correspondence(run, rec, sink):
    """X for the model of generatePath (Tmpl.Validators.gen_path) against the real function on a corpus of route paths"""
    if not rec or not rec.get("in"):
        return
    body = "From NIC Require Import Tmpl.Validators Tmpl.C06Regex.\n"
    rows = ["gen_path_row %s %s" % (C.cq_bytes(list(i or [])), C.cq_bytes(list(o or []))) for i, o in zip(rec["in"], rec["out"])]
    chunks = [rows[i:i + 300] for i in range(0, len(rows), 300)]
    for ci, ch in enumerate(chunks):
        body += "Definition results%d : list (list Z) := Eval vm_compute in [[" % ci + ";\n ".join(ch) + "]].\nPrint results%d.\n" % ci
    path = os.path.join(C.WORK, "cases", "C06_genpath_%s.v" % run.tier)
    C.write_cases_v(path, body)
    rc, out = C.coqc(path, timeout=900)
    flat = []
    for ci in range(len(chunks)):
        res = C.parse_z_lists(out, "results%d" % ci)
        if rc != 0 or not res:
            raise C.TieBroken("coqc could not evaluate the C06 generatePath correspondence file (%s): %s" % (path, out[-1500:]))
        flat += res[0]
    bad = [(bytes_of(rec["in"][i]).decode("latin1"), bytes_of(rec["out"][i]).decode("latin1")) for i, v in enumerate(flat) if v != 1]
    sink.append(("obl", len(flat) == len(rows) and not bad,
                 "the model of generatePath (Tmpl.Validators.gen_path: a regular-expression route path is written quoted) agrees with the real function on %d route paths" % len(rows),
                 "generatePath(input) = output differs from the model for (input, output): %s" % bad[:4]))


def translate_templates(run):
    """T: regenerate coq/gen/Templates.v from the real .tmpl files, compile it, and discharge the obligations
    file_ok <template> = true by vm_compute"""
    tbin = C.go_build("c06t")
    tmp = os.path.join(C.WORK, "c06_Templates.v")
    sites = os.path.join(C.WORK, "c06_sites.json")
    rc, log = C.run_harness(tbin, ["-out", tmp, "-sites", sites, "-selfcheck", "-q"], timeout=900)
    if rc == 2 or not os.path.exists(tmp):
        raise C.TieBroken("template translator c06t failed rc=%d: %s" % (rc, log[-1500:]))
    run.add_obligation(rc == 0, "template translator round trip (real renderings are derivable from the abstract templates)",
                       "c06t -selfcheck failed: %s" % log[-800:])
    dst = os.path.join(C.COQ, "gen", "Templates.v")
    new = open(tmp).read()
    if not os.path.exists(dst) or open(dst).read() != new:
        with open(dst, "w") as f:
            f.write(new)
    rc, out = C.coq_make(only=["Base", "Lex/Lexer.v", "Lex/Pack.v", "Tmpl", "gen/Templates.v", "Properties/C06.v"], tag="c06", timeout=1500)
    if rc != 0:
        raise C.TieBroken("the Rocq development of C06 (with the regenerated gen/Templates.v) does not build: %s" % out[-1500:])
    names = re.findall(r'\("(\w+)",\s*tmpl_\w+\)', new[new.rfind("Definition all_templates"):])
    if not names:
        raise C.TieBroken("gen/Templates.v defines no templates")
    body = "From NIC Require Import Lex.Lexer Tmpl.Syntax Tmpl.Classes Tmpl.Analyze gen.Templates.\n"
    for n in names:
        body += "Definition ok_%s := Eval vm_compute in file_ok tmpl_%s.\nPrint ok_%s.\n" % (n, n, n)
        body += "Definition diag_%s := Eval vm_compute in analyze_diag tmpl_%s [QBetween].\nPrint diag_%s.\n" % (n, n, n)
        body += "Definition unk_%s := Eval vm_compute in unknown_sites tmpl_%s.\nPrint unk_%s.\n" % (n, n, n)
    path = os.path.join(C.WORK, "cases", "C06_templates.v")
    C.write_cases_v(path, body)
    rc, out = C.coqc(path, timeout=900)
    if rc != 0:
        raise C.TieBroken("coqc could not evaluate the template obligations (%s): %s" % (path, out[-1500:]))
    try:
        site_rows = json.load(open(sites))
    except Exception:
        site_rows = []
    by_site = {(r.get("template"), r.get("id")): r for r in site_rows if isinstance(r, dict)}
    census = {}
    for r in site_rows:
        if isinstance(r, dict):
            census.setdefault(r.get("template"), {}).setdefault(str(r.get("class")).split(" ")[0], 0)
            census[r.get("template")][str(r.get("class")).split(" ")[0]] += 1
    run.cov["template_sites_by_class"] = census
    for n in names:
        ok = re.search(r'ok_%s\s*=\s*true' % n, out) is not None
        m = re.search(r'diag_%s\s*=\s*(.*?)\n\s*:\s*diag' % n, out, re.S)
        diag = re.sub(r'\s+', ' ', m.group(1)) if m else "?"
        detail = "analyze_diag tmpl_%s [QBetween] = %s" % (n, diag[:300])
        ms = re.search(r'DSite (\d+)', diag)
        if ms:
            for (tn, sid), r in by_site.items():
                if sid == int(ms.group(1)) and tn and (n in str(tn).replace("-", "_").replace(".", "_") or str(tn) in n):
                    detail += "; site %s line %s pipeline %s class %s (%s)" % (sid, r.get("line"), r.get("pipeline"), r.get("class"), r.get("reason"))
        mu = re.search(r'unk_%s\s*=\s*(\[.*?\])' % n, out, re.S)
        if mu and mu.group(1).strip() not in ("[]", "[ ]"):
            detail += "; unclassified sites: %s" % re.sub(r'\s+', ' ', mu.group(1))[:200]
        run.add_obligation(ok, "file_ok tmpl_%s = true (Tmpl.AnalyzeProofs.file_ok_invariant applies to the translated template)" % n, detail)
    return names


def class_violations(run, where, viols, case=None):
    """the tested glue: strings of the template data struct outside the class declared for their field although the
    structure is intact.  Fields the table itself marks weak (known finding / suspect / doubtful) are counted; a field the
    table declares solid is a broken tie between generator and class table."""
    for v in viols or []:
        val = bytes_of(v["value"]).decode("latin1")
        if v.get("weak"):
            d = run.cov.setdefault("class_violations_structure_intact", {})
            k = "%s (%s; %s)" % (v["key"], v.get("class") or "shape", v["weak"])
            d[k] = d.get(k, 0) + 1
        else:
            run.failing({"kind": "class-violation", "struct_field": v["key"]}, [slim(case)] if case else [],
                        "%s: the generator put %r into %s, declared %s in harness/.../c06/tab/tab.go (the hypothesis values_ok of "
                        "C06_structure_invariant is not met for this field; the structure of this rendering is intact)"
                        % (where, val, v["key"], v.get("class") or "a shape"), theorem="tested glue: values_ok", found_input=False)


def class_correspondence(run, rec, sink):
    """X for the Go copy of the class definitions (tab.InClass) against Classes.in_class_b"""
    smp = (rec or {}).get("samples") or []
    if not smp:
        return
    body = "From NIC Require Import Tmpl.Syntax Tmpl.Classes.\n"
    rows = ["(if Bool.eqb (in_class_b (%s) %s) %s then 1%%Z else 0%%Z)" % (x["class"], C.cq_bytes(list(x["value"] or [])), C.cq_bool(x["ok"])) for x in smp]
    chunks = [rows[i:i + 300] for i in range(0, len(rows), 300)]
    for ci, ch in enumerate(chunks):
        body += "Definition results%d : list (list Z) := Eval vm_compute in [[" % ci + ";\n ".join(ch) + "]].\nPrint results%d.\n" % ci
    path = os.path.join(C.WORK, "cases", "C06_classes_%s.v" % run.tier)
    C.write_cases_v(path, body)
    rc, out = C.coqc(path, timeout=900)
    flat = []
    for ci in range(len(chunks)):
        res = C.parse_z_lists(out, "results%d" % ci)
        if rc != 0 or not res:
            raise C.TieBroken("coqc could not evaluate the C06 class correspondence file (%s): %s" % (path, out[-1500:]))
        flat += res[0]
    bad = [(smp[i]["class"], bytes_of(smp[i]["value"]).decode("latin1"), smp[i]["ok"]) for i, v in enumerate(flat) if v != 1]
    sink.append(("cov", "class_membership_samples", len(flat)))
    sink.append(("obl", len(flat) == len(rows) and not bad, "the Go copy of the class definitions (tab.InClass) agrees with Classes.in_class_b on %d strings of real template data" % len(rows),
                 "disagreements (class, string, go verdict): %s" % bad[:5]))


def known_fields(pid="C06"):
    return {k.get("match", {}).get("field") for k in C.load_known() if k.get("property") == pid and k.get("status") == "open"}


def inventory_obligations(run, inv, sums):
    unc = [p for p in inv.get("uncovered") or [] if not any(re.search(a, p) for a in ALLOWED_UNCOVERED)]
    run.add_obligation(not unc, "inventory: every string leaf of the resource types (reflection) is populated by a fixture",
                       "string leaves no fixture populates (add them to a fixture in harness c06/fixtures.go): %s" % unc[:12])
    run.cov["string_leaves_by_reflection"] = len(inv.get("type_leaves") or [])
    run.cov["string_leaves_not_exercised"] = [p for p in inv.get("uncovered") or [] if p not in unc]
    annu = [k for k in inv.get("annotation_keys_uncovered") or [] if k not in ANNOTATION_NOT_READ]
    run.add_obligation(not annu, "inventory: every annotation key read by internal/configs and internal/k8s is attacked in a fixture",
                       "annotation keys in the source that no fixture carries: %s" % annu)
    # unvalidated keys whose value reaches the output must be known findings (or get a validator)
    reach = {}
    for s in sums:
        for f, st in s["fields"].items():
            m = re.match(r'^Ingress\.annotations\[(.*)\]$', f)
            if m and st.get("raw_reach", 0) > 0:
                reach[m.group(1)] = reach.get(m.group(1), 0) + st["raw_reach"]
    kf = known_fields()
    bad = [k for k in inv.get("annotation_keys_unvalidated") or []
           if k in reach and k not in ANNOTATION_NOT_READ and ("Ingress.annotations[%s]" % k) not in kf]
    run.add_obligation(not bad, "inventory: every annotation whose value reaches the configuration verbatim has an entry in annotationValidations",
                       "annotations rendered but absent from annotationValidations (internal/k8s/validation.go): %s" % bad)
    run.cov["annotations_without_validator"] = [k for k in inv.get("annotation_keys_unvalidated") or [] if k not in ANNOTATION_NOT_READ]


def check(run):
    n = 20 if run.tier == "quick" else 40
    t0 = time.time()
    translate_templates(run)
    run.log("templates translated and analysed in %.1fs" % (time.time() - t0))
    run.proof_obligations()
    binary = C.go_build("c06")
    out = os.path.join(C.WORK, "cases", "c06_%s.jsonl" % run.tier)
    t0 = time.time()
    rc, log = C.run_harness(binary, ["-seed", str(run.seed), "-n", str(n), "-out", out, "-tier", run.tier], timeout=6000)
    if rc != 0:
        raise C.TieBroken("c06 harness failed rc=%d: %s" % (rc, log[-1500:]))
    run.log("harness done in %.1fs" % (time.time() - t0))
    recs = C.read_jsonl(out)
    bases = {r["base_id"]: r for r in recs if r["rec"] == "base"}
    cases = [r for r in recs if r["rec"] == "case"]
    sums = [r for r in recs if r["rec"] == "summary"]
    inv = [r for r in recs if r["rec"] == "inventory"][0]
    side = concurrent.futures.ThreadPoolExecutor(max_workers=4)
    sink_r, sink_c, sink_s, sink_g = [], [], [], []
    fut = [side.submit(regex_correspondence, run, [r for r in recs if r["rec"] == "regex"], sink_r),
           side.submit(class_correspondence, run, ([r for r in recs if r["rec"] == "classes"] or [None])[0], sink_c),
           side.submit(selector_correspondence, run, [r for r in recs if r["rec"] == "selector"], sink_s),
           side.submit(genpath_correspondence, run, ([r for r in recs if r["rec"] == "genpath"] or [None])[0], sink_g)]
    for b in bases.values():
        if b.get("invalid") or b.get("errors") or not b.get("files"):
            run.failing({"kind": "fixture-invalid", "fixture": b["fixture"]}, [],
                        "base fixture %s/%s is no longer accepted / rendered by the implementation: invalid=%s errors=%s files=%d"
                        % (b["fixture"], "plus" if b["plus"] else "oss", b.get("invalid"), b.get("errors"), len(b.get("files") or [])),
                        theorem="harness c06 fixtures", found_input=False)
        class_violations(run, "base fixture %s/%s" % (b["fixture"], "plus" if b["plus"] else "oss"), b.get("class_violations"))
    t0 = time.time()
    rows = evaluate(bases, cases, run.tier)
    for f in fut:
        f.result()
    for item in sink_r + sink_c + sink_s + sink_g:
        if item[0] == "cov":
            run.cov[item[1]] = item[2]
        else:
            run.add_obligation(item[1], item[2], item[3])
    run.log("rocq evaluated %d cases in %.1fs" % (len(rows), time.time() - t0))
    judge(run, bases, cases, rows)
    tot = {}
    per_field = {}
    for s in sums:
        for f, st in s["fields"].items():
            pf = per_field.setdefault(f, {})
            for k, v in st.items():
                tot[k] = tot.get(k, 0) + v
                pf[k] = pf.get(k, 0) + v
    hr = [r for r in recs if r["rec"] == "histories"]
    if hr:
        run.cov["controller_histories"] = {"runs": hr[0]["runs"], "differing_from_fresh_controller": hr[0]["differing"], "evaluated_in_rocq": hr[0]["emitted"]}
    run.cov["candidates"] = tot
    ctxs = {}
    for s_ in sums:
        for cx, n_ in (s_.get("contexts") or {}).items():
            ctxs[cx] = ctxs.get(cx, 0) + n_
    run.cov["context_selectors_crossed"] = {"distinct_contexts": len(ctxs), "field_x_context_pairs": sum(ctxs.values()), "contexts": dict(sorted(ctxs.items()))}
    run.cov["fields_attacked"] = len(per_field)
    run.cov["fields_where_payload_reaches_output"] = sorted(f for f, st in per_field.items() if st.get("differ"))[:400]
    run.cov["fixtures"] = sorted({"%s/%s" % (b["fixture"], "plus" if b["plus"] else "oss") for b in bases.values()})
    run.cov["payloads_in_corpus"] = inv.get("payloads")
    inventory_obligations(run, inv, sums)
    for c in cases[:1] + [x for x in cases if rows.get(x["id"], [0, 0, 1])[2] == 0][:2]:
        run.sample(slim(c))
    run.cov["rule"] = ("every string leaf found by reflection in the spec of VirtualServer, VirtualServerRoute, TransportServer, Policy and in networking/v1 Ingress (spec + every "
                       "annotation key the source reads) of 10 base fixtures x {NGINX, NGINX Plus} is replaced by each payload of the corpus, alone and appended / prepended / inserted "
                       "into the fixture's valid value; candidates = validator calls (API-server admission model, CRD schema, real controller validator, snippets disabled); accepted "
                       "candidates are rendered by the real controller path twice (payload, harmless text of the same shape); renderings identical to the harmless one are counted as "
                       "identical, the others are de-duplicated per field and evaluated in Rocq (quick: all pre-screen suspects up to 6 per field and a seeded sample of the rest, "
                       "thorough: all).  A case is distinct by fixture+edition+leaf path+value and non-trivial when the two renderings differ.")
    run.cov["trusted_base"] = TRUSTED
    run.assumptions += ["snippets are disabled everywhere (the property is about that mode); App Protect WAF / DoS are disabled, so WAF policies, dos references and app-protect annotations are only checked to be rejected",
                        "API-server admission is approximated (see trusted_base); ConfigMap keys and GlobalConfiguration are not in the property's resource list",
                        "argument-count changes (a value that splits into several words) are reported in argument_count_changes_by_field, not as violations: they cannot terminate a directive or open a block"]


def replay(run, path):
    binary = C.go_build("c06")
    out = os.path.join(C.WORK, "cases", "c06_replay.jsonl")
    rc, log = C.run_harness(binary, ["-replay", path, "-out", out], timeout=900)
    if rc != 0:
        raise C.TieBroken("c06 harness failed on replay: %s" % log[-1500:])
    recs = C.read_jsonl(out)
    bases = {r["base_id"]: r for r in recs if r["rec"] == "base"}
    cases = [r for r in recs if r["rec"] == "case"]
    rows = evaluate(bases, cases, "replay")
    judge(run, bases, cases, rows, verbose=True)
