(* Tmpl/ClassesProofs.v -- the class theorems: for ALL strings of a class, the effect on the
   tokenizer DFA is the one computed by Classes.transfer.

   MAIN THEOREMS
     closed_under_sound     a state set that passed the 256-byte closure check is an invariant of every
                            string over the byte set, and no structural event is emitted
     set_transfer_sound     set_transfer f q = Some qs -> str_forall f s = true ->
                            exists q' e, run q s = (q', e) /\ structural e = [] /\ In q' qs
     transfer_sound         transfer c q = Some qs -> in_class c s ->
                            exists q' e, run q s = (q', e) /\ structural e = [] /\ In q' qs
                            (no side condition: transfer CLines = None by definition; CLines has
                             its own lemma lines_sound because its events are NOT structurally empty)
     lines_sound            in_class CLines s -> exists e, run QBetween s = (QBetween, e) /\ no_err e = true
     site_transfer_sound    the form Analyze uses (also covers CLines, events only Err-free there)
     dq_neutral / dq_complete   in_class CDQ s <-> run QDQ s = (QDQ, [])     (exact characterisation)
     sq_neutral / sq_complete   in_class CSQ s <-> run QSQ s = (QSQ, [])
     quoted_neutral         in_class CQuoted s -> run QBetween s = (QNeedSpace, [TokEnd])
     quoted_iff             in_class CQuoted s <-> s = dq ++ body ++ dq with body in CDQ
   The per-site corollaries, go_quote and the substitution theorem are in ClassesCorollaries.v. *)
From Coq Require Import List String Ascii Bool Arith.
From NIC Require Import Lex.Lexer Tmpl.Syntax Tmpl.LexAux Tmpl.Classes.
Import ListNotations.
Open Scope string_scope.
Open Scope list_scope.

(* the conclusion shared by all neutrality statements *)
Definition neutral_to (q : lstate) (s : string) (qs : list lstate) : Prop :=
  exists q' e, run q s = (q', e) /\ structural e = [] /\ In q' qs.

Lemma neutral_to_weaken : forall q s a b,
    neutral_to q s a -> (forall x, In x a -> In x b) -> neutral_to q s b.
Proof. intros q s a b (q' & e & H1 & H2 & H3) Hab. exists q', e. auto. Qed.

Lemma neutral_to_nil : forall q qs, In q qs -> neutral_to q "" qs.
Proof. intros. exists q, []. cbn. auto. Qed.

Lemma neutral_to_app : forall q a b qm qs,
    neutral_to q a qm -> (forall x, In x qm -> neutral_to x b qs) -> neutral_to q (a ++ b)%string qs.
Proof.
  intros q a b qm qs (q1 & e1 & H1 & H2 & H3) Hb.
  destruct (Hb q1 H3) as (q2 & e2 & H4 & H5 & H6).
  exists q2, (e1 ++ e2). split; [now apply run_app_eq with q1|].
  split; [|assumption]. now rewrite structural_app, H2, H5.
Qed.

(* ---------------------------------------------------------------- one allowed step *)

Lemma step_ok_spec : forall q c q1,
    step_ok q c = Some q1 -> exists e1, step q c = (q1, e1) /\ structural e1 = [].
Proof.
  intros q c q1. unfold step_ok. destruct (step q c) as [q' e].
  destruct (is_nil (structural e)) eqn:Hn; cbn; [|discriminate].
  destruct (lstate_eqb q' QErr); cbn; [discriminate|].
  intro H. inversion H; subst. exists e. split; [reflexivity|now apply is_nil_eq].
Qed.

Lemma neutral_to_cons : forall q c s q1 qs,
    step_ok q c = Some q1 -> neutral_to q1 s qs -> neutral_to q (String c s) qs.
Proof.
  intros q c s q1 qs Hs (q2 & e2 & H1 & H2 & H3).
  destruct (step_ok_spec _ _ _ Hs) as (e1 & He1 & Hn1).
  exists q2, (e1 ++ e2). cbn [run]. rewrite He1, H1.
  split; [reflexivity|]. split; [|assumption]. now rewrite structural_app, Hn1, H2.
Qed.

(* what one checked row says *)
Lemma checked_step : forall (f : ascii -> bool) q Qs c,
    forallb (fun c => negb (f c) ||
               match step_ok q c with Some q' => mem_st q' Qs | None => false end) all_bytes = true ->
    f c = true -> exists q1, step_ok q c = Some q1 /\ In q1 Qs.
Proof.
  intros f q Qs c H Hf.
  pose proof (forall_bytes _ H c) as Hc. cbn beta in Hc. rewrite Hf in Hc. cbn in Hc.
  destruct (step_ok q c) as [q1|]; [|discriminate].
  exists q1. split; [reflexivity|now apply mem_st_In].
Qed.

(* ---------------------------------------------------------------- the generic byte-set theorem *)

Theorem closed_under_sound : forall f Qs,
    closed_under f Qs = true ->
    forall s q, In q Qs -> str_forall f s = true -> neutral_to q s Qs.
Proof.
  intros f Qs Hc. induction s as [|c s IH]; intros q Hq Hs.
  - now apply neutral_to_nil.
  - cbn in Hs. apply andb_true_iff in Hs. destruct Hs as [Hfc Hs].
    unfold closed_under in Hc. rewrite forallb_forall in Hc.
    destruct (checked_step f q Qs c (Hc q Hq) Hfc) as (q1 & Hs1 & Hin).
    apply neutral_to_cons with q1; [assumption|]. now apply IH.
Qed.

Lemma check_set_sound : forall f q o qs s,
    check_set f q o = Some qs -> str_forall f s = true -> neutral_to q s qs.
Proof.
  intros f q o qs s H Hs. destruct o as [Qs|]; cbn [check_set] in H; [|discriminate].
  destruct (mem_st q (norm_st Qs) && closed_under f (norm_st Qs)) eqn:Hc; [|discriminate].
  inversion H; subst. apply andb_true_iff in Hc. destruct Hc as [Hm Hc].
  apply (closed_under_sound f _ Hc s q); [now apply mem_st_In|assumption].
Qed.

(* NOTE on proof engineering: with an abstract byte set f the search [propose_set f q] is a stuck
   term whose comparison with another copy of itself is exponential for the conversion test, so
   the definitions are never unfolded in hypotheses; the unfolding equations below are proved by
   reflexivity (a cheap orientation) and used by rewriting. *)
Lemma set_transfer_unfold : forall f q, set_transfer f q = check_set f q (propose_set f q).
Proof. intros. reflexivity. Qed.

Lemma first_rest_transfer_unfold : forall eo first rest q,
    first_rest_transfer eo first rest q = first_rest_check eo first rest q (first_states first q).
Proof. intros. reflexivity. Qed.

Theorem set_transfer_sound : forall f q qs s,
    set_transfer f q = Some qs -> str_forall f s = true ->
    exists q' e, run q s = (q', e) /\ structural e = [] /\ In q' qs.
Proof.
  intros f q qs s H Hs. rewrite set_transfer_unfold in H.
  exact (check_set_sound f q _ qs s H Hs).
Qed.

Lemma transfer_all_sound : forall g Q R q,
    transfer_all g Q = Some R -> In q Q ->
    exists a, g q = Some a /\ (forall x, In x a -> In x R).
Proof.
  induction Q as [|q0 Q IH]; intros R q H Hq; [destruct Hq|].
  cbn [transfer_all] in H. destruct (g q0) as [a|] eqn:Hg; [|discriminate].
  destruct (transfer_all g Q) as [b|] eqn:Hb; [|discriminate].
  injection H as <-. destruct Hq as [->|Hq].
  - exists a. split; [assumption|]. intros x Hx. apply union_st_In. now left.
  - destruct (IH b q eq_refl Hq) as (a' & Ha' & Hsub). exists a'. split; [assumption|].
    intros x Hx. apply union_st_In. right. now apply Hsub.
Qed.

Lemma first_rest_check_sound : forall eo first rest q oF qs s,
    first_rest_check eo first rest q oF = Some qs -> first_rest eo first rest s = true ->
    neutral_to q s qs.
Proof.
  intros eo first rest q oF qs s H Hs. destruct oF as [F|]; cbn [first_rest_check] in H; [|discriminate].
  destruct (first_ok_b first q F) eqn:Hf; [|discriminate].
  destruct (transfer_all (set_transfer rest) F) as [R|] eqn:HR; [|discriminate].
  injection H as <-. destruct s as [|c r]; cbn [first_rest] in Hs.
  - subst eo. apply neutral_to_nil. apply union_st_In. left. now left.
  - apply andb_true_iff in Hs. destruct Hs as [Hc Hr].
    destruct (checked_step first q F c Hf Hc) as (q1 & Hs1 & Hin).
    destruct (transfer_all_sound _ _ _ _ HR Hin) as (a & Ha & Hsub).
    apply neutral_to_cons with q1; [assumption|].
    apply neutral_to_weaken with a; [exact (set_transfer_sound _ _ _ _ Ha Hr)|].
    intros x Hx. destruct eo; [apply union_st_In; right|]; now apply Hsub.
Qed.

Theorem first_rest_transfer_sound : forall eo first rest q qs s,
    first_rest_transfer eo first rest q = Some qs -> first_rest eo first rest s = true ->
    neutral_to q s qs.
Proof.
  intros eo first rest q qs s H Hs. rewrite first_rest_transfer_unfold in H.
  exact (first_rest_check_sound _ _ _ _ _ _ _ H Hs).
Qed.

(* ---------------------------------------------------------------- quoted fragments *)

Definition dq_state (esc : bool) : lstate := if esc then QDQEsc else QDQ.
Definition sq_state (esc : bool) : lstate := if esc then QSQEsc else QSQ.

Lemma dq_st_run : forall s esc esc',
    q_st ch_dq esc s = Some esc' -> run (dq_state esc) s = (dq_state esc', []).
Proof.
  induction s as [|c s IH]; intros esc esc'; cbn [q_st].
  - intro H. inversion H; subst. reflexivity.
  - pose proof (IH false esc') as IHf. pose proof (IH true esc') as IHt.
    change (dq_state false) with QDQ in IHf. change (dq_state true) with QDQEsc in IHt.
    destruct esc; cbn [dq_state run step].
    + intro H. now rewrite (IHf H).
    + destruct (Ascii.eqb c ch_bs); [intro H; now rewrite (IHt H)|].
      destruct (Ascii.eqb c ch_dq); [discriminate|]. intro H. now rewrite (IHf H).
Qed.

Lemma dq_run_st : forall s esc q',
    run (dq_state esc) s = (q', []) -> exists esc', q_st ch_dq esc s = Some esc' /\ q' = dq_state esc'.
Proof.
  induction s as [|c s IH]; intros esc q'.
  - cbn. intro H. inversion H; subst. exists esc. split; reflexivity.
  - rewrite run_cons. intro H. injection H as Hq He. subst q'.
    apply app_eq_nil in He. destruct He as [He1 He2]. revert He1 He2. cbn [q_st].
    destruct esc; cbn [dq_state step fst snd].
    + intros _ He2. apply (IH false). change (dq_state false) with QDQ.
      rewrite <- He2. apply surjective_pairing.
    + destruct (Ascii.eqb c ch_bs); cbn [fst snd].
      * intros _ He2. apply (IH true). change (dq_state true) with QDQEsc.
        rewrite <- He2. apply surjective_pairing.
      * destruct (Ascii.eqb c ch_dq); cbn [fst snd]; [intro He1; discriminate He1|].
        intros _ He2. apply (IH false). change (dq_state false) with QDQ.
        rewrite <- He2. apply surjective_pairing.
Qed.

Lemma sq_st_run : forall s esc esc',
    q_st ch_sq esc s = Some esc' -> run (sq_state esc) s = (sq_state esc', []).
Proof.
  induction s as [|c s IH]; intros esc esc'; cbn [q_st].
  - intro H. inversion H; subst. reflexivity.
  - pose proof (IH false esc') as IHf. pose proof (IH true esc') as IHt.
    change (sq_state false) with QSQ in IHf. change (sq_state true) with QSQEsc in IHt.
    destruct esc; cbn [sq_state run step].
    + intro H. now rewrite (IHf H).
    + destruct (Ascii.eqb c ch_bs); [intro H; now rewrite (IHt H)|].
      destruct (Ascii.eqb c ch_sq); [discriminate|]. intro H. now rewrite (IHf H).
Qed.

Lemma sq_run_st : forall s esc q',
    run (sq_state esc) s = (q', []) -> exists esc', q_st ch_sq esc s = Some esc' /\ q' = sq_state esc'.
Proof.
  induction s as [|c s IH]; intros esc q'.
  - cbn. intro H. inversion H; subst. exists esc. split; reflexivity.
  - rewrite run_cons. intro H. injection H as Hq He. subst q'.
    apply app_eq_nil in He. destruct He as [He1 He2]. revert He1 He2. cbn [q_st].
    destruct esc; cbn [sq_state step fst snd].
    + intros _ He2. apply (IH false). change (sq_state false) with QSQ.
      rewrite <- He2. apply surjective_pairing.
    + destruct (Ascii.eqb c ch_bs); cbn [fst snd].
      * intros _ He2. apply (IH true). change (sq_state true) with QSQEsc.
        rewrite <- He2. apply surjective_pairing.
      * destruct (Ascii.eqb c ch_sq); cbn [fst snd]; [intro He1; discriminate He1|].
        intros _ He2. apply (IH false). change (sq_state false) with QSQ.
        rewrite <- He2. apply surjective_pairing.
Qed.

Theorem dq_neutral : forall s, in_class CDQ s -> run QDQ s = (QDQ, []).
Proof.
  intros s H. unfold in_class, in_class_b, dq_scan, q_frag in H.
  destruct (q_st ch_dq false s) as [[|]|] eqn:E; try discriminate.
  exact (dq_st_run s false false E).
Qed.

Theorem dq_complete : forall s, run QDQ s = (QDQ, []) -> in_class CDQ s.
Proof.
  intros s H. destruct (dq_run_st s false QDQ H) as (esc' & E & Hq).
  unfold in_class, in_class_b, dq_scan, q_frag. rewrite E.
  destruct esc'; [discriminate Hq|reflexivity].
Qed.

Theorem sq_neutral : forall s, in_class CSQ s -> run QSQ s = (QSQ, []).
Proof.
  intros s H. unfold in_class, in_class_b, sq_scan, q_frag in H.
  destruct (q_st ch_sq false s) as [[|]|] eqn:E; try discriminate.
  exact (sq_st_run s false false E).
Qed.

Theorem sq_complete : forall s, run QSQ s = (QSQ, []) -> in_class CSQ s.
Proof.
  intros s H. destruct (sq_run_st s false QSQ H) as (esc' & E & Hq).
  unfold in_class, in_class_b, sq_scan, q_frag. rewrite E.
  destruct esc'; [discriminate Hq|reflexivity].
Qed.

(* ---------------------------------------------------------------- a complete quoted token *)

Lemma q_scan_run : forall r esc,
    q_scan esc r = true -> run (dq_state esc) r = (QNeedSpace, [TokEnd]).
Proof.
  induction r as [|c r IH]; intros esc; cbn [q_scan]; [discriminate|].
  pose proof (IH false) as IHf. pose proof (IH true) as IHt.
  change (dq_state false) with QDQ in IHf. change (dq_state true) with QDQEsc in IHt.
  destruct esc; cbn [dq_state run step].
  - intro H. now rewrite (IHf H).
  - destruct (Ascii.eqb c ch_bs); [intro H; now rewrite (IHt H)|].
    destruct (Ascii.eqb c ch_dq).
    + destruct r; [reflexivity|discriminate].
    + intro H. now rewrite (IHf H).
Qed.

Theorem quoted_neutral : forall s, in_class CQuoted s -> run QBetween s = (QNeedSpace, [TokEnd]).
Proof.
  intros s H. unfold in_class, in_class_b, quoted_b in H. destruct s as [|c r]; [discriminate|].
  apply andb_true_iff in H. destruct H as [Hc Hr]. apply Ascii.eqb_eq in Hc. subst c.
  rewrite run_cons. change (step QBetween ch_dq) with (QDQ, @nil ev). cbn [fst snd].
  pose proof (q_scan_run r false Hr) as R. change (dq_state false) with QDQ in R.
  now rewrite R.
Qed.

Lemma q_scan_of_body : forall b esc,
    q_st ch_dq esc b = Some false -> q_scan esc (b ++ String ch_dq EmptyString)%string = true.
Proof.
  induction b as [|c b IH]; intros esc; cbn [q_st append q_scan].
  - intro H. inversion H; subst. reflexivity.
  - destruct esc; [now apply IH|].
    destruct (Ascii.eqb c ch_bs); [now apply IH|].
    destruct (Ascii.eqb c ch_dq); [discriminate|]. now apply IH.
Qed.

Lemma q_scan_body : forall r esc,
    q_scan esc r = true ->
    exists b, r = (b ++ String ch_dq EmptyString)%string /\ q_st ch_dq esc b = Some false.
Proof.
  induction r as [|c r IH]; intros esc; cbn [q_scan]; [discriminate|].
  destruct esc.
  - intro H. destruct (IH false H) as (b & -> & Hb). exists (String c b).
    split; [reflexivity|exact Hb].
  - destruct (Ascii.eqb c ch_bs) eqn:Ebs.
    + intro H. destruct (IH true H) as (b & -> & Hb). exists (String c b).
      split; [reflexivity|]. cbn [q_st]. now rewrite Ebs.
    + destruct (Ascii.eqb c ch_dq) eqn:Edq.
      * destruct r; [|discriminate]. intros _. apply Ascii.eqb_eq in Edq. subst c.
        exists EmptyString. split; reflexivity.
      * intro H. destruct (IH false H) as (b & -> & Hb). exists (String c b).
        split; [reflexivity|]. cbn [q_st]. now rewrite Ebs, Edq.
Qed.

Theorem quoted_iff : forall s,
    in_class CQuoted s <->
    exists body, s = String ch_dq (body ++ String ch_dq EmptyString)%string /\ in_class CDQ body.
Proof.
  intro s. unfold in_class, in_class_b, quoted_b, dq_scan, q_frag. split.
  - destruct s as [|c r]; [discriminate|]. intro H.
    apply andb_true_iff in H. destruct H as [Hc Hr]. apply Ascii.eqb_eq in Hc. subst c.
    destruct (q_scan_body r false Hr) as (b & -> & Hb). exists b. split; [reflexivity|].
    now rewrite Hb.
  - intros (b & -> & Hb). rewrite Ascii.eqb_refl. cbn [andb].
    apply q_scan_of_body. destruct (q_st ch_dq false b) as [[|]|]; try discriminate. reflexivity.
Qed.

(* ---------------------------------------------------------------- integers, literals, lines *)

Lemma int_first_rest : forall s, int_b s = true -> first_rest false int_first digit_byte s = true.
Proof.
  destruct s as [|c r]; cbn; [discriminate|]. unfold int_first.
  destruct (Ascii.eqb c "-"%char).
  - intro H. rewrite orb_true_r. cbn [andb]. destruct r as [|d r]; cbn in *; [discriminate|].
    exact H.
  - intro H. apply andb_true_iff in H. destruct H as [H1 H2]. now rewrite H1, H2.
Qed.

Lemma lit_transfer_sound : forall alts q qs s,
    lit_transfer alts q = Some qs -> existsb (String.eqb s) alts = true -> neutral_to q s qs.
Proof.
  induction alts as [|a alts IH]; intros q qs s H Hs; cbn [existsb] in Hs; [discriminate|].
  cbn [lit_transfer] in H. destruct (run q a) as [q' e] eqn:Hr.
  destruct (is_nil (structural e) && negb (lstate_eqb q' QErr)) eqn:Hc; [|discriminate].
  destruct (lit_transfer alts q) as [l|] eqn:Hl; [|discriminate].
  injection H as <-. apply orb_true_iff in Hs. destruct Hs as [Hs|Hs].
  - apply String.eqb_eq in Hs. subst a. exists q', e. split; [assumption|].
    apply andb_true_iff in Hc. destruct Hc as [Hc _]. split; [now apply is_nil_eq|].
    apply union_st_In. left. now left.
  - apply neutral_to_weaken with l; [now apply IH|].
    intros x Hx. apply union_st_In. now right.
Qed.

Theorem lines_sound : forall s,
    in_class CLines s -> exists e, run QBetween s = (QBetween, e) /\ no_err e = true.
Proof.
  intros s H. unfold in_class, in_class_b, lines_b in H.
  destruct (run QBetween s) as [q e]. apply andb_true_iff in H. destruct H as [Hq He].
  apply lstate_eqb_eq in Hq. subst q. now exists e.
Qed.

(* ---------------------------------------------------------------- THE class theorem *)

Theorem transfer_sound : forall c q qs s,
    transfer c q = Some qs -> in_class c s ->
    exists q' e, run q s = (q', e) /\ structural e = [] /\ In q' qs.
Proof.
  intros c q qs s Ht Hs. unfold in_class in Hs. destruct c; cbn [transfer in_class_b] in *.
  - exact (set_transfer_sound _ _ _ _ Ht Hs).
  - exact (set_transfer_sound _ _ _ _ Ht Hs).
  - exact (first_rest_transfer_sound _ _ _ _ _ _ Ht Hs).
  - destruct q; try discriminate. inversion Ht; subst.
    exists QDQ, []. split; [now apply dq_neutral|]. cbn. auto.
  - destruct q; try discriminate. inversion Ht; subst.
    exists QSQ, []. split; [now apply sq_neutral|]. cbn. auto.
  - destruct q; try discriminate. inversion Ht; subst.
    exists QNeedSpace, [TokEnd]. split; [now apply quoted_neutral|]. cbn. auto.
  - exact (first_rest_transfer_sound _ _ _ _ _ _ Ht (int_first_rest _ Hs)).
  - exact (lit_transfer_sound _ _ _ _ Ht Hs).
  - discriminate.
  - destruct s; [|discriminate]. inversion Ht; subst. exists q, []. cbn. auto.
  - discriminate.
Qed.

(* the form used by the template analysis: every class, CLines included; for CLines the events
   are only Err-free, for every other class they are structurally empty *)
Theorem site_transfer_sound : forall c q qs s,
    site_transfer c q = Some qs -> in_class c s ->
    exists q' e, run q s = (q', e) /\ In q' qs /\ no_err e = true /\
                 (c <> CLines -> structural e = []).
Proof.
  intros c q qs s Ht Hs.
  assert (Hgen : transfer c q = Some qs ->
                 exists q' e, run q s = (q', e) /\ In q' qs /\ no_err e = true /\
                              (c <> CLines -> structural e = [])).
  { intro H. destruct (transfer_sound c q qs s H Hs) as (q' & e & H1 & H2 & H3).
    exists q', e. repeat split; auto. now apply structural_nil_no_err. }
  destruct c; try (apply Hgen; exact Ht).
  cbn in Ht. destruct q; try discriminate. inversion Ht; subst.
  destruct (lines_sound s Hs) as (e & H1 & H2). exists QBetween, e.
  repeat split; cbn; auto. intro H. now elim H.
Qed.

(* the tabulated version is the same function (44 evaluations) *)
Lemma site_transfer_fast_eq : forall c q, site_transfer_fast c q = site_transfer c q.
Proof. destruct c; try reflexivity; destruct q; vm_compute; reflexivity. Qed.
