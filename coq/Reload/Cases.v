(* C12 -- evaluation of the model (X) and of the decidable specification (S) on what the
   harness observed on the implementation.  No proofs here. *)
From Coq Require Import List ZArith String Bool Arith.
From NIC Require Import Base.SMap Reload.Model.
Import ListNotations.
Open Scope Z_scope.

Definition fk_eqb (a b : fk) : bool :=
  match a, b with FMain, FMain | FConf, FConf | FStream, FStream | FTls, FTls | FSecret, FSecret | FLazy, FLazy => true | _, _ => false end.

Definition ev_eqb (a b : ev) : bool :=
  match a, b with
  | EWrite k n c, EWrite k' n' c' => fk_eqb k k' && String.eqb n n' && Bool.eqb c c'
  | EDelete k n c, EDelete k' n' c' => fk_eqb k k' && String.eqb n n' && Bool.eqb c c'
  | EReload e o, EReload e' o' => Bool.eqb e e' && Bool.eqb o o'
  | EApi s u o, EApi s' u' o' => Bool.eqb s s' && String.eqb u u' && Bool.eqb o o'
  | EEnable, EEnable | EDisable, EDisable => true
  | _, _ => false
  end.

Fixpoint log_eqb (a b : list ev) : bool :=
  match a, b with
  | [], [] => true
  | x :: a', y :: b' => ev_eqb x y && log_eqb a' b'
  | _, _ => false
  end.

Definition err_code (x : err) : Z := match x with ENone => 0 | EReloadFailed => 1 end.

Definition is_marker (x : ev) : bool := match x with EEnable | EDisable => true | _ => false end.

(* observation of one operation: the implementation's log (with the markers the harness adds
   for its own Enable/Disable calls), error class (0 none, 1 the injected reload failure,
   2 anything else), isReloadsEnabled afterwards *)
Definition oobs := (list ev * Z * bool)%type.

(* first index at which [f] is false, or -1 *)
Fixpoint first_bad {A} (f : A -> bool) (l : list A) (i : Z) : Z :=
  match l with
  | [] => -1
  | x :: r => if f x then first_bad f r (i + 1) else i
  end.

(* X: the model run against the observations; index of the first operation that differs *)
Fixpoint agree_from (e : env) (s : cst) (os : list op) (obs : list oobs) (i : Z) : Z :=
  match os, obs with
  | [], [] => -1
  | o :: os', (l, ec, en) :: obs' =>
      let '(s1, x) := step e s o in
      if log_eqb (log x) l && (err_code (oerr x) =? ec) && Bool.eqb (enabled s1) en
      then agree_from e s1 os' obs' (i + 1) else i
  | _, _ => i
  end.

(* S1: no Reload and no API call while reloads are held back (the window is delimited by the
   public EnableReloads/DisableReloads calls; a fresh Configurator holds reloads back) *)
Fixpoint held_from (h : bool) (obs : list oobs) (i : Z) : Z :=
  match obs with
  | [] => -1
  | (l, _, _) :: r =>
      match held_scan h l with
      | Some h' => held_from h' r (i + 1)
      | None => i
      end
  end.

(* S2: an operation that returns without error while reloads are enabled has applied its change *)
Definition applied_ok (pl : bool) (o : op) (x : oobs) : bool :=
  let '(l, ec, en) := x in
  if negb (is_gate o) && negb (skips o) && en && (ec =? 0)
  then applied (pl && is_endp o) l else true.

(* S4: a failed Reload call is exactly what the operation returns *)
Definition failprop_ok (x : oobs) : bool :=
  let '(l, ec, _) := x in Bool.eqb (existsb is_failed_reload l) (ec =? 1) && negb (ec =? 2).

Fixpoint first_bad2 {A B} (f : A -> B -> bool) (a : list A) (b : list B) (i : Z) : Z :=
  match a, b with
  | x :: a', y :: b' => if f x y then first_bad2 f a' b' (i + 1) else i
  | _, _ => -1
  end.

(* S5 ("pushes the same change through the API"): [mis] lists the positions, in the log of one
   operation, of the API calls whose pushed server list differs from the `server` lines of that
   upstream in the file on disk.  Such a successful call must be followed by a successful Reload
   in the same operation (then NGINX has read the file anyway). *)
Definition reload_ok_ev (x : ev) : bool := match x with EReload _ true => true | _ => false end.
Definition push_same_ok (l : list ev) (mis : list nat) : bool :=
  forallb (fun i => match nth_error l i with
                    | Some (EApi _ _ true) => existsb reload_ok_ev (skipn (S i) l)
                    | Some (EWrite _ _ _) => existsb reload_ok_ev (skipn (S i) l)   (* an upstream changed in the file and was not pushed *)
                    | _ => true
                    end) mis.

(* S6 (retry; "no change left unapplied"): an endpoints operation that wrote a changed file and returned the
   failed reload leaves that change pending; when the next operation is again an endpoints operation over the
   same files and returns without error with reloads enabled, nothing may be pending any more -- a successful
   reload, or (Plus) API calls that all succeeded, at least one.  The pending state is carried from the failed
   operation (S2 judges each operation from a clean slate, and the retried operation finds the file up to date). *)
Definition wnames (l : list ev) : list string :=
  flat_map (fun x => match x with EWrite k n _ => [fkey k n] | _ => [] end) l.
Fixpoint strs_eqb (a b : list string) : bool :=
  match a, b with
  | [], [] => true
  | x :: a', y :: b' => if String.eqb x y then strs_eqb a' b' else false
  | _, _ => false
  end.
Definition retry_ok (pl : bool) (po : op) (px : oobs) (o : op) (x : oobs) : bool :=
  let '(pl0, pec, pen) := px in
  let '(l, ec, en) := x in
  if is_endp po then if is_endp o then
    if pen && en && (pec =? 1) && (ec =? 0) && strs_eqb (wnames pl0) (wnames l)
       && negb (Nat.eqb (List.length (wnames l)) 0) && pend_scan false pl0
    then negb (pend_scan true l) || (pl && forallb api_ok l && existsb is_api l)
    else true
  else true else true.
Fixpoint retry_from (pl : bool) (ops : list op) (obs : list oobs) (i : Z) : Z :=
  match ops, obs with
  | po :: ((o :: _) as ops'), px :: ((x :: _) as obs') =>
      if retry_ok pl po px o x then retry_from pl ops' obs' (i + 1) else i + 1
  | _, _ => -1
  end.

(* coverage of the model run: bit mask of the branches reached *)
Definition bit (b : bool) (n : Z) : Z := if b then n else 0.

Definition cover (t : list ev) (ops : list op) : Z :=
  bit (existsb (fun x => match x with EReload _ true => true | _ => false end) t) 1 +
  bit (existsb is_failed_reload t) 2 +
  bit (existsb (fun x => match x with EApi _ _ true => true | _ => false end) t) 4 +
  bit (existsb (fun x => match x with EApi _ _ false => true | _ => false end) t) 8 +
  bit (existsb (fun x => match x with EWrite _ _ false => true | EDelete _ _ false => true | _ => false end) t) 16 +
  bit (existsb has_weights ops) 32 +
  bit (existsb (fun x => match x with EDisable => true | _ => false end) t) 64.

Definition b2z (b : bool) : Z := if b then 1 else 0.

(* row: [id; model agrees; spec holds; nontrivial; coverage; first disagreeing op;
         first op violating S1 (held); S2 (applied); S4 (failure propagates)] *)
Definition cfg_case (id : Z) (pl : bool) (fxs : fixes) (ops : list op) (rfail afail : list nat) (obs : list oobs)
           (mis : list (list nat)) : list Z :=
  let e := {| plus := pl; ro := fails_at rfail; ao := fails_at afail; fx := fxs |} in
  let ag := agree_from e init ops obs 0 in
  let s1 := held_from true obs 0 in
  let s2 := first_bad2 (applied_ok pl) ops obs 0 in
  let s4 := first_bad failprop_ok obs 0 in
  let s5 := first_bad2 (fun (x : oobs) m => push_same_ok (fst (fst x)) m) obs mis 0 in
  let s6 := retry_from pl ops obs 0 in
  let '(_, xs) := run e init ops in
  let t := trace xs in
  [id; b2z (ag =? -1); b2z ((s1 =? -1) && (s2 =? -1) && (s4 =? -1) && (s5 =? -1) && (s6 =? -1));
   b2z (existsb (fun x => is_reload x || is_change x || is_api x) t); cover t ops; ag; s1; s2; s4; s5; s6].

(* ================= controller family ================= *)

(* observation of one sync: log at the Manager boundary (no markers: the controller calls
   Enable/Disable itself), isReloadsEnabled / isNginxReady / batchSyncEnabled afterwards,
   and whether a Warning event (...WithError / Rejected) was recorded during the sync *)
Definition sobs := (list ev * bool * bool * bool * bool)%type.

Definition unmark (l : list ev) : list ev := filter (fun x => negb (is_marker x)) l.

Fixpoint sagree_from (e : env) (c : ctl) (ts : list task) (obs : list sobs) (i : Z) : Z :=
  match ts, obs with
  | [], [] => -1
  | t :: ts', (l, en, rd, bt, rep) :: obs' =>
      let '(c1, x) := sync e c t in
      if log_eqb (unmark (slog x)) l && Bool.eqb (enabled (cfg c1)) en && Bool.eqb (ready c1) rd
         && Bool.eqb (batch c1) bt && Bool.eqb (reported x) rep
      then sagree_from e c1 ts' obs' (i + 1) else i
  | _, _ => i
  end.

(* S on the implementation's own observations, scanning the history with
   rd/bt = ready/batch before the sync, ch = a file changed since the batch began,
   p = a change is pending since the last successful reload.
   Result codes per sync: 0 fine; 1 reload or API call in a held-back window (mid batch or
   before start-up ends); 2 batch ended, something changed, no reload attempted after the
   last change; 3 batch ended, nothing had changed and nothing was pending, yet NGINX was
   reloaded (main config rewritten: 4); 5 a failed reload was not reported on any resource *)
Definition last_change_reloaded (l : list ev) : bool :=
  (* a Reload call (attempt) follows the last change event *)
  let fix go (l : list ev) (seen : bool) : bool :=
    match l with
    | [] => seen
    | x :: r => if is_reload x then go r true else if is_change x then go r false else go r seen
    end in go l false.

(* 7: outside any window (ready, no batch before or after) the sync changed a file and returned
      with neither a Reload call after the last change nor (Plus, endpointslice task) a fully
      successful API push *)
Definition sync_verdict (pl : bool) (rd bt ch p brk : bool) (t : task) (o : sobs) : Z :=
  let '(l, en, rd', bt', rep) := o in
  let held_after := negb rd' || bt' in
  let changed := ch || existsb is_change l in
  (* 11: the queue is empty at the end of the sync but the window did not close *)
  if Nat.eqb (t_qlen t) 0 && held_after then 11
  else if held_after && negb brk && existsb (fun x => is_reload x || is_api x) l then 1
  else if existsb is_failed_reload l && negb rep then
         (* whose reload failed?  The log of a sync is: handler part, then (if updateAllConfigs ran) the main
            config write and everything after it, or (batch ended through ReloadForBatchUpdates) the closing
            reload, which is then the last Reload event.  Codes:
            8 the handler's own reload, and the handler has an object to report on (6: endpointslice handler);
            9 updateAllConfigs' reload, and a resource or ConfigMap+GlobalConfiguration exists;
            5 the reload that closes a batch, and a resource exists (it concerns all of them);
            0 nothing exists to report on (deleted object, no resource left) *)
         (let is_main := fun x => match x with EWrite FMain _ _ => true | _ => false end in
          let fix split_main (l : list ev) (acc : bool) : bool * bool :=   (* (failed before main, main seen) *)
            match l with
            | [] => (acc, false)
            | x :: r => if is_main x then (acc, true) else split_main r (acc || is_failed_reload x)
            end in
          (* (a failed reload occurs before the last Reload event, the last Reload event failed) *)
          let fix split_last (l : list ev) (seen_failed last_failed : bool) : bool * bool :=
            match l with
            | [] => (seen_failed, last_failed)
            | x :: r => if is_reload x then split_last r (seen_failed || last_failed) (is_failed_reload x)
                        else split_last r seen_failed last_failed
            end in
          let '(fpre, has_main) := split_main l false in
          let by_task := if is_endp_task (t_kind t) then 6 else if t_reports t then 8 else 0 in
          let at_end := match t_all t with [] => 0 | _ => 5 end in
          if has_main then
            (if fpre then by_task else if t_all_reports t then 9 else 0)
          else if bt && negb bt' then
            (let '(early, last) := split_last l false false in
             if last && negb (at_end =? 0) then at_end else if early then by_task else 0)
          else by_task)
  else if bt && negb bt' && changed && negb (last_change_reloaded l) then 2
  else if rd && negb bt && negb bt' && existsb is_change l && negb (last_change_reloaded l)
          && negb (pl && is_endp_task (t_kind t) && forallb api_ok l && existsb is_api l) then 7
  else if bt && negb bt' && negb (changed || p) && existsb is_reload l then
         (if existsb (fun x => match x with EWrite FMain _ _ => true | _ => false end) l then 4 else 3)
  else 0.

(* brk: a reload already happened inside the current held-back window (everything after it in
   the same window is a consequence, reported once) *)
Fixpoint sverdicts (pl : bool) (rd bt ch p brk : bool) (ts : list task) (obs : list sobs) : list Z :=
  match ts, obs with
  | t :: ts', o :: obs' =>
      let '(l, en, rd', bt', rep) := o in
      let v := sync_verdict pl rd bt ch p brk t o in
      let ch' := if bt' then (if bt then ch else false) || existsb is_change l else false in
      let held_after := negb rd' || bt' in
      let brk' := held_after && (brk || (v =? 1)) in
      v :: sverdicts pl rd' bt' ch' (pend_scan p l) brk' ts' obs'
  | _, _ => []
  end.

Definition scover (t : list ev) (xs : list sout) (c : ctl) : Z :=
  bit (existsb (fun x => match x with EReload _ true => true | _ => false end) t) 1 +
  bit (existsb is_failed_reload t) 2 +
  bit (existsb is_api t) 4 +
  bit (existsb (fun x => match x with EDisable => true | _ => false end) t) 8 +
  bit (existsb swallowed xs) 16 +
  bit (existsb reported xs) 32 +
  bit (uab c) 64.

(* row: [id; model agrees; spec holds; nontrivial; coverage; first disagreeing sync; verdict per sync ...] *)
Fixpoint with_push (vs : list Z) (obs : list sobs) (mis : list (list nat)) : list Z :=
  match vs, obs, mis with
  | v :: vs', (l, _, _, _, _) :: obs', m :: mis' =>
      (if (v =? 0) && negb (push_same_ok l m) then 10 else v) :: with_push vs' obs' mis'
  | _, _, _ => vs
  end.

Definition ctl_case (id : Z) (pl : bool) (fxs : fixes) (ts : list task) (rfail afail : list nat) (obs : list sobs)
           (mis : list (list nat)) : list Z :=
  let e := {| plus := pl; ro := fails_at rfail; ao := fails_at afail; fx := fxs |} in
  let ag := sagree_from e ctl_init ts obs 0 in
  let vs := with_push (sverdicts pl false false false false false ts obs) obs mis in
  let '(c, xs) := run_sync e ctl_init ts in
  let t := strace xs in
  [id; b2z (ag =? -1); b2z (forallb (Z.eqb 0) vs); b2z (existsb is_reload t); scover t xs c; ag] ++ vs.
