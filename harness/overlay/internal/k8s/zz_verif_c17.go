//go:build verif

package k8s

// Add-only hooks for property C17 (no admissible object makes the controller panic).
// Nothing here decides anything: a LoadBalancerController is assembled the way
// controller_test.go assembles one (struct literal; listers are plain cache stores the
// harness fills; real Configuration, real Configurator over the real templates and the
// FakeManager, real LocalSecretStore), and the unexported entry points are exported as thin
// wrappers.  Panics are NOT recovered here: the harness recovers and reports them.

import (
	"context"
	"log/slog"
	"path/filepath"

	"github.com/nginx/kubernetes-ingress/internal/configs"
	"github.com/nginx/kubernetes-ingress/internal/configs/version1"
	"github.com/nginx/kubernetes-ingress/internal/configs/version2"
	"github.com/nginx/kubernetes-ingress/internal/k8s/appprotect"
	"github.com/nginx/kubernetes-ingress/internal/k8s/appprotectdos"
	"github.com/nginx/kubernetes-ingress/internal/k8s/secrets"
	nl "github.com/nginx/kubernetes-ingress/internal/logger"
	"github.com/nginx/kubernetes-ingress/internal/metrics/collectors"
	"github.com/nginx/kubernetes-ingress/internal/nginx"
	conf_v1 "github.com/nginx/kubernetes-ingress/pkg/apis/configuration/v1"
	"github.com/nginx/kubernetes-ingress/pkg/apis/configuration/validation"
	api_v1 "k8s.io/api/core/v1"
	discovery_v1 "k8s.io/api/discovery/v1"
	networking "k8s.io/api/networking/v1"
	"k8s.io/client-go/tools/cache"
	"k8s.io/client-go/tools/record"
)

// VerifC17Opts are the feature flags of one controller instance.
type VerifC17Opts struct {
	IsPlus         bool
	AppProtect     bool
	AppProtectDos  bool
	InternalRoutes bool
	Snippets       bool
	CertManager    bool
	TLSPassthrough bool
	ExternalDNS    bool
	OIDC           bool
	RepoRoot       string // where the templates live
	WatchNamespace string // "" = all namespaces (one informer group under key ""); else only this namespace is watched (-watch-namespace)
}

// VerifC17Templates holds the parsed templates (parsed once per flavour, shared).
type VerifC17Templates struct {
	V1 *version1.TemplateExecutor
	V2 *version2.TemplateExecutor
}

// VerifC17LoadTemplates parses the real templates of the tree.
func VerifC17LoadTemplates(repoRoot string, plus bool) (*VerifC17Templates, error) {
	d := filepath.Join(repoRoot, "internal", "configs")
	m, i, v, t := "nginx.tmpl", "nginx.ingress.tmpl", "nginx.virtualserver.tmpl", "nginx.transportserver.tmpl"
	if plus {
		m, i, v, t = "nginx-plus.tmpl", "nginx-plus.ingress.tmpl", "nginx-plus.virtualserver.tmpl", "nginx-plus.transportserver.tmpl"
	}
	v1, err := version1.NewTemplateExecutor(filepath.Join(d, "version1", m), filepath.Join(d, "version1", i))
	if err != nil {
		return nil, err
	}
	v2, err := version2.NewTemplateExecutor(filepath.Join(d, "version2", v), filepath.Join(d, "version2", t))
	if err != nil {
		return nil, err
	}
	return &VerifC17Templates{V1: v1, V2: v2}, nil
}

// VerifC17 is a controller over stores the harness populates.
type VerifC17 struct {
	lbc  *LoadBalancerController
	opts VerifC17Opts
	nsi  *namespacedInformer
	pods cache.Indexer
}

type verifC17Silent struct{}

func (verifC17Silent) Enabled(context.Context, slog.Level) bool  { return false }
func (verifC17Silent) Handle(context.Context, slog.Record) error { return nil }
func (h verifC17Silent) WithAttrs([]slog.Attr) slog.Handler      { return h }
func (h verifC17Silent) WithGroup(string) slog.Handler           { return h }

// NewVerifC17 builds the controller.
func NewVerifC17(o VerifC17Opts, tm *VerifC17Templates) *VerifC17 {
	logger := slog.New(verifC17Silent{})
	ctx := nl.ContextWithLogger(context.Background(), logger)
	pods := cache.NewIndexer(cache.MetaNamespaceKeyFunc, cache.Indexers{cache.NamespaceIndex: cache.MetaNamespaceIndexFunc})
	store := func() cache.Store { return cache.NewStore(cache.MetaNamespaceKeyFunc) }
	nsi := &namespacedInformer{
		ingressLister:                storeToIngressLister{Store: store()},
		svcLister:                    store(),
		endpointSliceLister:          storeToEndpointSliceLister{Store: store()},
		podLister:                    indexerToPodLister{Indexer: pods},
		secretLister:                 store(),
		virtualServerLister:          store(),
		virtualServerRouteLister:     store(),
		transportServerLister:        store(),
		policyLister:                 store(),
		appProtectPolicyLister:       store(),
		appProtectLogConfLister:      store(),
		appProtectDosPolicyLister:    store(),
		appProtectDosLogConfLister:   store(),
		appProtectDosProtectedLister: store(),
		appProtectUserSigLister:      store(),
		isSecretsEnabledNamespace:    true,
		areCustomResourcesEnabled:    true,
		appProtectEnabled:            o.AppProtect,
		appProtectDosEnabled:         o.AppProtectDos,
	}
	version := nginx.NewVersion("nginx version: nginx/1.25.3 (nginx-plus-r31)")
	static := &configs.StaticConfigParams{
		HealthStatus:                   true,
		HealthStatusURI:                "/nginx-health",
		NginxStatus:                    true,
		NginxStatusAllowCIDRs:          []string{"127.0.0.1"},
		NginxStatusPort:                8080,
		StubStatusOverUnixSocketForOSS: false,
		TLSPassthrough:                 o.TLSPassthrough,
		EnableSnippets:                 o.Snippets,
		EnableInternalRoutes:           o.InternalRoutes,
		MainAppProtectLoadModule:       o.AppProtect,
		MainAppProtectDosLoadModule:    o.AppProtectDos,
		EnableCertManager:              o.CertManager,
		EnableOIDC:                     o.OIDC,
		NginxVersion:                   version,
	}
	manager := nginx.NewFakeManager("/etc/nginx")
	cnf := configs.NewConfigurator(configs.ConfiguratorParams{
		NginxManager:            manager,
		StaticCfgParams:         static,
		Config:                  configs.NewDefaultConfigParams(ctx, o.IsPlus),
		MGMTCfgParams:           configs.NewDefaultMGMTConfigParams(ctx),
		TemplateExecutor:        tm.V1,
		TemplateExecutorV2:      tm.V2,
		IsPlus:                  o.IsPlus,
		IsWildcardEnabled:       false,
		IsPrometheusEnabled:     false,
		IsLatencyMetricsEnabled: false,
		NginxVersion:            version,
	})
	cnf.EnableReloads()
	lbc := &LoadBalancerController{
		ctx:                          ctx,
		Logger:                       logger,
		ingressClass:                 "nginx",
		isNginxPlus:                  o.IsPlus,
		appProtectEnabled:            o.AppProtect,
		appProtectDosEnabled:         o.AppProtectDos,
		internalRoutesEnabled:        o.InternalRoutes,
		enableOIDC:                   o.OIDC,
		areCustomResourcesEnabled:    true,
		isNginxReady:                 true,
		namespacedInformers:          map[string]*namespacedInformer{o.WatchNamespace: nsi},
		globalConfigurationLister:    store(),
		configurator:                 cnf,
		secretStore:                  secrets.NewLocalSecretStore(cnf),
		recorder:                     &record.FakeRecorder{},
		metricsCollector:             collectors.NewControllerFakeCollector(),
		appProtectConfiguration:      appprotect.NewConfiguration(logger),
		dosConfiguration:             appprotectdos.NewConfiguration(o.AppProtectDos),
		isLeaderElectionEnabled:      true, // with no elector: status writes to the API are skipped
		globalConfigurationValidator: validation.NewGlobalConfigurationValidator(map[int]bool{80: true, 443: true}),
		transportServerValidator:     validation.NewTransportServerValidator(o.TLSPassthrough, o.Snippets, o.IsPlus),
	}
	lbc.syncQueue = newTaskQueue(logger, lbc.sync)
	// as NewLoadBalancerController does; the controller's own service is nginx-ingress/nginx-ingress
	lbc.statusUpdater = &statusUpdater{
		namespace:              "nginx-ingress",
		externalServiceName:    "nginx-ingress",
		keyFunc:                keyFunc,
		namespacedInformers:    lbc.namespacedInformers,
		hasCorrectIngressClass: lbc.HasCorrectIngressClass,
		logger:                 logger,
	}
	lbc.configuration = NewConfiguration(
		lbc.HasCorrectIngressClass, o.IsPlus, o.AppProtect, o.AppProtectDos, o.InternalRoutes,
		validation.NewVirtualServerValidator(validation.IsPlus(o.IsPlus), validation.IsDosEnabled(o.AppProtectDos),
			validation.IsCertManagerEnabled(o.CertManager), validation.IsExternalDNSEnabled(o.ExternalDNS)),
		lbc.globalConfigurationValidator, lbc.transportServerValidator,
		o.TLSPassthrough, o.Snippets, o.CertManager, false,
	)
	return &VerifC17{lbc: lbc, opts: o, nsi: nsi, pods: pods}
}

// Configuration is the real arbitration state (its AddOrUpdate*/Delete* are exported already).
func (v *VerifC17) Configuration() *Configuration { return v.lbc.configuration }

// ValidateIngress is validateIngress; returns the number of errors.
func (v *VerifC17) ValidateIngress(ing *networking.Ingress) int {
	o := v.opts
	return len(validateIngress(ing, o.IsPlus, o.AppProtect, o.AppProtectDos, o.InternalRoutes, o.Snippets))
}

// ValidatePolicy is what getPolicies/syncPolicy call.
func (v *VerifC17) ValidatePolicy(p *conf_v1.Policy) error {
	return validation.ValidatePolicy(p, v.lbc.isNginxPlus, v.lbc.enableOIDC, v.lbc.appProtectEnabled)
}

func (v *VerifC17) VSValidator() *validation.VirtualServerValidator {
	return v.lbc.configuration.virtualServerValidator
}
func (v *VerifC17) TSValidator() *validation.TransportServerValidator {
	return v.lbc.transportServerValidator
}
func (v *VerifC17) GCValidator() *validation.GlobalConfigurationValidator {
	return v.lbc.globalConfigurationValidator
}

// Fill the listers.
func (v *VerifC17) AddService(s *api_v1.Service) error { return v.nsi.svcLister.Add(s) }
func (v *VerifC17) AddSlice(s *discovery_v1.EndpointSlice) error {
	return v.nsi.endpointSliceLister.Add(s)
}
func (v *VerifC17) AddPod(p *api_v1.Pod) error             { return v.pods.Add(p) }
func (v *VerifC17) AddPolicy(p *conf_v1.Policy) error      { return v.nsi.policyLister.Add(p) }
func (v *VerifC17) AddSecretObject(s *api_v1.Secret) error { return v.nsi.secretLister.Add(s) }

// ExtendAll = createExtendedResources(GetResources()) followed by the Configurator's
// AddOrUpdate for every extended resource (real templates).  Returns how many were generated.
func (v *VerifC17) ExtendAll() (n int, genErrs int) {
	res := v.lbc.configuration.GetResources()
	ex := v.lbc.createExtendedResources(res)
	for _, m := range ex.MergeableIngresses {
		if _, err := v.lbc.configurator.AddOrUpdateMergeableIngress(m); err != nil {
			genErrs++
		}
		n++
	}
	for _, i := range ex.IngressExes {
		if _, err := v.lbc.configurator.AddOrUpdateIngress(i); err != nil {
			genErrs++
		}
		n++
	}
	for _, vs := range ex.VirtualServerExes {
		if _, err := v.lbc.configurator.AddOrUpdateVirtualServer(vs); err != nil {
			genErrs++
		}
		n++
	}
	for _, ts := range ex.TransportServerExes {
		if _, err := v.lbc.configurator.AddOrUpdateTransportServer(ts); err != nil {
			genErrs++
		}
		n++
	}
	return n, genErrs
}

// ProcessChanges / ProcessProblems are what every sync function runs after arbitration.
func (v *VerifC17) ProcessChanges(ch []ResourceChange)        { v.lbc.processChanges(ch) }
func (v *VerifC17) ProcessProblems(pr []ConfigurationProblem) { v.lbc.processProblems(pr) }
func (v *VerifC17) ProcessGCChanges(ch []ResourceChange) error {
	return v.lbc.processChangesFromGlobalConfiguration(ch)
}

// Sync puts the object into the lister its informer would have filled (or removes it when
// del is set) and runs the worker's sync function for it: the real task-queue entry point.
func (v *VerifC17) Sync(obj interface{}, del bool) error {
	key, err := keyFunc(obj)
	if err != nil {
		return err
	}
	t, err := newTask(key, obj)
	if err != nil {
		return err
	}
	var st cache.Store
	switch obj.(type) {
	case *networking.Ingress:
		st = v.nsi.ingressLister.Store
	case *conf_v1.VirtualServer:
		st = v.nsi.virtualServerLister
	case *conf_v1.VirtualServerRoute:
		st = v.nsi.virtualServerRouteLister
	case *conf_v1.TransportServer:
		st = v.nsi.transportServerLister
	case *conf_v1.Policy:
		st = v.nsi.policyLister
	case *conf_v1.GlobalConfiguration:
		st = v.lbc.globalConfigurationLister
	case *api_v1.Service:
		st = v.nsi.svcLister
	case *discovery_v1.EndpointSlice:
		st = v.nsi.endpointSliceLister.Store
	case *api_v1.Secret:
		st = v.nsi.secretLister
	}
	if st != nil {
		if del {
			_ = st.Delete(obj)
		} else {
			_ = st.Add(obj)
		}
	}
	v.lbc.sync(t)
	return nil
}

// VerifC17ChangeSummary projects a change list: number of AddOrUpdate and Delete operations
// and whether one of them carries an error.
func VerifC17ChangeSummary(ch []ResourceChange) (adds, dels int, withError bool) {
	for _, c := range ch {
		if c.Op == AddOrUpdate {
			adds++
		} else {
			dels++
		}
		if c.Error != "" {
			withError = true
		}
	}
	return
}

// VerifC17Rejected reports whether a problem list carries a validation rejection (IsError).
func VerifC17Rejected(pr []ConfigurationProblem) bool {
	for _, p := range pr {
		if p.IsError {
			return true
		}
	}
	return false
}

// AddSecret puts a Secret into the real LocalSecretStore (what syncSecret does for a
// referenced secret).
func (v *VerifC17) AddSecret(s *api_v1.Secret) { v.lbc.secretStore.AddOrUpdateSecret(s) }

// VerifC17AnnotationNames lists the Ingress annotations the validator knows (the keys of
// annotationValidations, sorted), so that the harness can put adversarial values on each.
func VerifC17AnnotationNames() []string { return append([]string(nil), annotationNames...) }

// VerifC17FollowUps names the event-driven entry points that re-walk the stored objects
// after they were accepted and generated.
var VerifC17FollowUps = []string{
	"UpdateEndpoints", "UpdateEndpointsMergeableIngress", "UpdateEndpointsForVirtualServers", "UpdateEndpointsForTransportServers",
	"AddOrUpdateResources", "updateAllConfigs", "FindResourcesFor*",
}

// FollowUp runs one of them on everything the Configuration currently holds (no recover here).
func (v *VerifC17) FollowUp(name string) error {
	lbc := v.lbc
	ex := func() configs.ExtendedResources { return lbc.createExtendedResources(lbc.configuration.GetResources()) }
	switch name {
	case "UpdateEndpoints": // syncEndpointSlices; with NGINX Plus this goes through updatePlusEndpoints
		return lbc.configurator.UpdateEndpoints(ex().IngressExes)
	case "UpdateEndpointsMergeableIngress":
		return lbc.configurator.UpdateEndpointsMergeableIngress(ex().MergeableIngresses)
	case "UpdateEndpointsForVirtualServers": // with NGINX Plus: createUpstreamsForPlus + the Plus API
		return lbc.configurator.UpdateEndpointsForVirtualServers(ex().VirtualServerExes)
	case "UpdateEndpointsForTransportServers":
		return lbc.configurator.UpdateEndpointsForTransportServers(ex().TransportServerExes)
	case "AddOrUpdateResources": // syncService, syncSecret
		_, err := lbc.configurator.AddOrUpdateResources(ex(), true)
		return err
	case "updateAllConfigs": // a ConfigMap update regenerates everything (Configurator.UpdateConfig)
		lbc.updateAllConfigs()
	case "FindResourcesFor*": // the reference checkers run on every Service / EndpointSlice / Secret / Policy / App Protect event
		c := lbc.configuration
		for _, n := range []string{"svc-a", "svc-b", "svc-d", "svc-ext", "missing"} {
			c.FindResourcesForService("default", n)
			c.FindResourcesForEndpoints("default", n)
		}
		for _, n := range []string{"tls-secret", "ca-secret", "jwk-secret", "htpasswd-secret", "oidc-secret", "apikey-secret", "missing"} {
			c.FindResourcesForSecret("default", n)
		}
		for _, n := range []string{"z-pol", "missing"} {
			c.FindResourcesForPolicy("default", n)
		}
		c.FindResourcesForAppProtectPolicyAnnotation("default", "dataguard")
		c.FindResourcesForAppProtectLogConfAnnotation("default", "logconf")
		c.FindResourcesForAppProtectDosProtected("default", "dos")
		c.FindIngressesWithRatelimitScaling("default")
	}
	return nil
}
