"""C15 -- a change to anything a served resource depends on reaches that resource."""
import os, json
from . import common as C

KIND = {"secret": "KSecret", "service": "KService", "endpoints": "KEndpoints", "policy": "KPolicy",
        "appolicy": "KApPolicy", "aplogconf": "KApLogConf", "dos": "KDos", "dospolicy": "KDosPolicy", "doslogconf": "KDosLogConf"}


_INTERN = None   # per cases file: string -> identifier (a string literal costs type-checking time per character)


def S(s):
    if _INTERN is None:
        return C.cq_str(s)
    if s not in _INTERN:
        _INTERN[s] = "s%d" % len(_INTERN)
    return _INTERN[s]


def B(b):
    return C.cq_bool(bool(b))


def L(items):
    return C.cq_list(list(items))


def O(x, f=S):
    return "None" if x is None else "(Some %s)" % f(x)


def cq_dep(d):
    return "(%s, %s)" % (KIND[d["kind"]], S(d["key"]))


def cq_polrefs(ps):
    return L("(Build_polref %s %s)" % (S(p["name"]), S(p["ns"])) for p in ps)


def cq_upstreams(us):
    return L("(Build_upstream %s %s %s %s %s)" % (S(u["service"]), S(u["backup"]), B(u["backup_port"]), B(u["subselector"]),
                                                  B(u["use_cluster_ip"])) for u in us)


def cq_routes(rs):
    return L("(Build_route %s %s)" % (cq_polrefs(r["policies"]), S(r["dos"])) for r in rs)


def cq_ingress(i):
    rules = L("(Build_irule %s %s)" % (B(r["host_valid"]),
                                      O(r["paths"], lambda ps: L("(Build_ipath %s %s)" % (B(p["valid"]), S(p["svc"])) for p in ps)))
              for r in i["rules"])
    return "(Build_ingress %s %s %s %s %s %s %s %s %s %s %s)" % (
        S(i["ns"]), L(S(t) for t in i["tls"]), O(i["basic"]), O(i["jwt"]), O(i["ap_policy"]), O(i["ap_logconf"]),
        O(i["ap_logdst"]), O(i["dos"]), B(i["use_cluster_ip"]), O(i["default"]), rules)


def cq_resource(sk):
    k = sk["kind"]
    if k == "vs":
        vsrs = L("(Build_vsroute %s %s %s)" % (S(r["ns"]), cq_routes(r["subroutes"]), cq_upstreams(r["upstreams"])) for r in sk["vsrs"])
        return "(RVS (Build_vserver %s %s %s %s %s %s %s))" % (S(sk["ns"]), O(sk["tls"]), cq_polrefs(sk["policies"]), S(sk["dos"]),
                                                              cq_upstreams(sk["upstreams"]), cq_routes(sk["routes"]), vsrs)
    if k == "ts":
        ups = L("(Build_tsupstream %s %s %s)" % (S(u["service"]), S(u["backup"]), B(u["backup_port"])) for u in sk["upstreams"])
        return "(RTS (Build_tserver %s %s %s))" % (S(sk["ns"]), O(sk["tls"]), ups)
    if k == "ing":
        return "(RIngress %s)" % cq_ingress(sk["ing"])
    if k == "merge":
        return "(RMergeable %s %s)" % (cq_ingress(sk["master"]), L(cq_ingress(m) for m in sk["minions"]))
    raise ValueError(k)


def cq_policy(p):
    sk = p["skel"]
    jwt = "None" if "jwt" not in sk else "(Some (%s, %s))" % (S(sk["jwt"]["secret"]), B(sk["jwt"]["jwks"]))
    em = "None" if "emtls" not in sk else "(Some (%s, %s))" % (S(sk["emtls"]["tls"]), S(sk["emtls"]["trusted"]))
    waf = "None"
    if "waf" in sk:
        w = sk["waf"]
        waf = "(Some (Build_waf %s %s %s))" % (S(w["appol"]), O(w.get("seclog")), O(w.get("seclogs"), lambda ls: L(S(x) for x in ls)))
    return "(Build_policy %s %s %s %s %s %s %s %s %s %s %s)" % (
        S(sk["ns"]), S(sk["name"]), B(p["valid"]), B(p["class_ok"]), jwt, O(sk.get("basic")), O(sk.get("imtls")), em,
        O(sk.get("oidc")), O(sk.get("apikey")), waf)


def cq_cluster(c):
    cl, o = c["cluster"], c["obs"]
    pols = L(cq_policy(p) for p in o["pols"])
    secs = L(S(s["key"]) for s in (cl.get("secrets") or []) if s["ok"])
    aps = L(cq_dep(a) for a in (cl.get("ap") or []) + (cl.get("doshops") or []) if a["ok"])
    dos = L("(Build_dosprot %s %s %s %s %s)" % (S(d["ns"]), S(d["name"]), B(d["valid"]), S(d["policy"]), O(d["logconf"]))
            for d in o.get("dosprot") or [])
    svcs = L("(%s, %s)" % (S(s["key"]), "SvcExternalName" if s["external"] else "SvcPods") for s in (cl.get("services") or []))
    return "(Build_cluster %s %s %s %s %s)" % (pols, secs, aps, svcs, dos)


OP = {"add": "Add", "update": "Update", "update-irrelevant": "Update", "update-invalid": "Update", "update-valid": "Update",
      "update-metadata": "Update", "relabel-to": "Update", "relabel-away": "Update", "update-recreated": "Update", "rollout": "Update",
      "delete": "Delete"}


def events_of(o, model=False):
    """events that could be driven; model=True: only the kinds the model knows (APUserSig is judged by S alone)"""
    # relabel-away reaches the Service the slice left through syncService (no endpoints filter): an update of another kind of
    # object from the model's point of view, so it is judged by S alone as well
    return [x for x in o.get("events") or [] if not x.get("err") and not (model and (x["kind"] == "usersig" or x["op"] == "relabel-away"))]


def ev_bad(x):
    """Refs.Cases.ev_ok in python, for the report: which clause an event violates"""
    if x.get("fresh_diff"):
        return "differs-from-fresh-controller"
    if x["stale"]:
        return "stale-after-event"
    if x.get("dep") and not x["regen"] and not (OP[x["op"]] == "Update" and not x.get("material", True)):
        return "not-regenerated"
    return None


def deps_of(o):
    return [{"kind": r["kind"], "key": r["ns"] + "/" + r["name"]} for r in o["rev"] if r["dep"]]


def case_to_coq(c):
    o = c["obs"]
    if c["fam"] == "inv":
        return "inv_case %d %s" % (c["eid"], L(S(f) for f in o["fields"]))
    e = c["env"]
    env = "(Build_env %s %s %s %s %s %s)" % (B(e["plus"]), B(e["ap"]), B(e["dos"]), B(e["fix"]), B(e.get("fixc")), B(e.get("fixb")))
    revs = L("(Build_rev %s %s %s %s %s %s)" % (KIND[r["kind"]], S(r["ns"]), S(r["name"]), B(r["direct"]), L(S(v) for v in r["via"]),
                                                B(r["req"])) for r in o["rev"])
    pf = L("(%s, %s, %s)" % (S(p["skel"]["ns"]), S(p["skel"]["name"]), B(p["found"])) for p in o["pols"])
    evs = L("(Build_ev %s %s %s %s %s %s %s %s %s)" % ((KIND[x["kind"]],) + tuple(S(t) for t in x["key"].split("/", 1)) +
                                                        (OP[x["op"]], B(x["relevant"]), B(x["regen"]), B(x["stale"]), B(x.get("dep")),
                                                         B(x.get("material", True))))
            for x in events_of(o, model=True))
    return "res_case %d %s %s %s %s %s %s %s %s" % (c["eid"], env, cq_cluster(c), cq_resource(o["skel"]), L(cq_dep(d) for d in deps_of(o)),
                                                    L(cq_dep(d) for d in o["lookups"]), revs, pf, evs)


def expand(cases):
    """one evaluation unit per served resource: a case of class multi serves 2-3 resources of different kinds
    in one Configuration and carries one observation per resource; the unit keeps the whole input (it is the replay)"""
    out = []
    for c in cases:
        subs = (c.get("obs") or {}).get("multi")
        if c.get("class") == "multi" and subs:
            for k, sub in enumerate(subs):
                u = dict(c)
                u["obs"] = sub
                u["eid"] = c["id"] * 4 + k + 1
                u["sub"] = sub.get("kind")
                out.append(u)
        else:
            u = dict(c)
            u["eid"] = c["id"] * 4
            out.append(u)
    return out


def usable(c):
    o = c.get("obs") or {}
    if c["fam"] == "inv":
        return True
    return bool(o.get("served")) and not o.get("panic") and not o.get("error")


def evaluate(run, cases, tag):
    cases = [c for c in cases if usable(c)]
    if not cases:
        return []
    global _INTERN
    _INTERN = {}
    try:
        defs = ""
        # one small definition per case (a single big list literal type-checks in superlinear time)
        for i, c in enumerate(cases):
            defs += "Definition r%d : list Z := Eval vm_compute in (%s).\n" % (i, case_to_coq(c))
        body = "From NIC Require Import Refs.Model Refs.Cases.\nOpen Scope list_scope.\n"
        for k, v in _INTERN.items():
            body += "Definition %s : string := %s.\n" % (v, C.cq_str(k))
    finally:
        _INTERN = None
    body += defs
    body += "Definition results : list (list Z) := Eval vm_compute in [" + "; ".join("r%d" % i for i in range(len(cases))) + "].\n"
    body += "Print results.\n"
    path = os.path.join(C.WORK, "cases", "C15_%s.v" % tag)
    C.write_cases_v(path, body)
    rc, out = C.coqc(path)
    res = C.parse_z_lists(out, "results")
    if rc != 0 or res is None or len(res) != len(cases):
        raise C.TieBroken("coqc could not evaluate the C15 cases file (%s): %s" % (path, out[-1500:]))
    return res


def positions(sk, kind, key):
    """where the observed resource names the object (kind, key): computed from the input alone"""
    out = set()

    def ups(us, ns, bns, tag):
        for u in us:
            if ns + "/" + u["service"] == key and not (kind == "endpoints" and u.get("use_cluster_ip")):
                out.add(tag + "-upstream")
            if u.get("backup") and u.get("backup_port") and key in [b + "/" + u["backup"] for b in bns]:
                out.add(tag + "-upstream-backup")

    if kind in ("service", "endpoints"):
        k = sk["kind"]
        if k == "vs":
            ups(sk["upstreams"], sk["ns"], [sk["ns"]], "vs")
            for r in sk["vsrs"]:
                ups(r["upstreams"], r["ns"], [r["ns"], sk["ns"]], "vsr")   # unfixed code looks the backup up in the VS namespace
        elif k == "ts":
            ups(sk["upstreams"], sk["ns"], [sk["ns"]], "ts")
        else:
            ings = [sk["ing"]] if k == "ing" else [sk["master"]] + sk["minions"]
            for i in ings:
                if i["default"] is not None and i["ns"] + "/" + i["default"] == key:
                    out.add("ing-default-backend")
                for r in i["rules"]:
                    for p in r["paths"] or []:
                        if i["ns"] + "/" + p["svc"] == key:
                            out.add("ing-path-backend")

    def refs(ps, owner, tag):
        for r in ps:
            if (r["ns"] or owner) + "/" + r["name"] == key:
                out.add(tag)

    def qual(owner, v):
        return v if "/" in v else owner + "/" + v

    k = sk["kind"]
    ings = [sk["ing"]] if k == "ing" else ([sk["master"]] + sk["minions"] if k == "merge" else [])
    if kind == "secret":
        if k in ("vs", "ts") and sk["tls"] is not None and sk["ns"] + "/" + sk["tls"] == key:
            out.add(k + "-tls")
        for i in ings:
            if key in [i["ns"] + "/" + t for t in i["tls"]]:
                out.add("ing-tls")
            for a in ("basic", "jwt"):
                if i[a] is not None and i["ns"] + "/" + i[a] == key:
                    out.add("ing-" + a)
        if not out and k == "vs":
            out.add("policy-secret")
    elif kind == "policy" and k == "vs":
        refs(sk["policies"], sk["ns"], "vs-policy")
        for r in sk["routes"]:
            refs(r["policies"], sk["ns"], "vs-route-policy")
        for v in sk["vsrs"]:
            for r in v["subroutes"]:
                refs(r["policies"], v["ns"], "vsr-subroute-policy")
    elif kind == "dos":
        if k == "vs":
            if sk["dos"] and qual(sk["ns"], sk["dos"]) == key:
                out.add("vs-dos")
            for r in sk["routes"]:
                if r["dos"] and qual(sk["ns"], r["dos"]) == key:
                    out.add("vs-route-dos")
            for v in sk["vsrs"]:
                for r in v["subroutes"]:
                    if r["dos"] and qual(v["ns"], r["dos"]) == key:
                        out.add("vsr-subroute-dos")
        for i in ings:
            if i["dos"] is not None and qual(i["ns"], i["dos"]) == key:
                out.add("ing-dos")
    elif kind in ("dospolicy", "doslogconf"):
        out.add("dos-hop")
    elif kind == "usersig":
        out.add("appolicy-signature-requirement")
    elif kind in ("appolicy", "aplogconf"):
        a = "ap_policy" if kind == "appolicy" else "ap_logconf"
        for i in ings:
            if i[a] is not None and key in [qual(i["ns"], x) for x in i[a].split(",")]:
                out.add("ing-annotation")
        if not out and k == "vs":
            out.add("policy-waf")
    return sorted(out)[0] if out else "other"


def judge(run, cases, res):
    byid = {c["eid"]: c for c in cases}
    for c in cases:
        o = c.get("obs") or {}
        if c["fam"] == "res" and (o.get("panic") or o.get("error")):
            run.failing({"kind": "harness-case-error", "class": c["class"], "panic": bool(o.get("panic"))}, [c],
                        "case %d (%s): %s" % (c["id"], c["class"], (o.get("panic") or o.get("error"))[:300]),
                        theorem="correspondence harness c15", found_input=bool(o.get("panic")))
        elif c["fam"] == "res" and not o.get("served"):
            run.cov["not_served"] = run.cov.get("not_served", 0) + 1
    for row in res:
        cid, agree, spec, nontrivial, ndeps = row[:5]
        c = byid[cid]
        cid = c["id"]
        if c["fam"] == "inv":
            run.add_obligation(bool(agree), "field-inventory",
                               "reference-bearing fields found by reflection %s differ from Refs.Model.inventory" % c["obs"]["fields"])
            run.cov["inventory_fields"] = ndeps
            continue
        o = c["obs"]
        canon = {k: c.get(k) for k in ("class", "sub", "env", "cluster", "ing", "minions", "rival", "vs", "ts")}
        run.count_case(canon, bool(nontrivial))
        run.cov["traces_validated_against_impl"] += 1
        by = run.cov.setdefault("by_class", {})
        cls = c["class"] + (":" + c["sub"] + (":shared-name" if len({(c.get(k) or {}).get("name") for k in ("ing", "vs", "ts") if c.get(k)}) == 1 else ":distinct-names") if c.get("sub") else "")
        by[cls] = by.get(cls, 0) + 1
        run.cov["dependencies_observed"] = run.cov.get("dependencies_observed", 0) + len(deps_of(o))
        run.cov["model_dependencies"] = run.cov.get("model_dependencies", 0) + ndeps
        run.cov["reverse_lookups_compared"] = run.cov.get("reverse_lookups_compared", 0) + len(o["rev"])
        evs = events_of(o)
        run.cov["events_delivered"] = run.cov.get("events_delivered", 0) + len(evs)
        for x in o.get("events") or []:
            if x.get("err"):
                run.failing({"kind": "harness-event-error", "dep": x["kind"], "op": x["op"]}, [c],
                            "case %d: event %s %s %s could not be driven: %s" % (cid, x["op"], x["kind"], x["key"], x["err"][:200]),
                            theorem="correspondence harness c15", found_input=x["err"].startswith("panic"))
        if not spec:
            deps = deps_of(o)
            if 0 <= row[10] < len(deps):            # Refs.Cases.spec_ok: a dependency the reverse look-ups do not find
                d = deps[row[10]]
                pos = positions(o["skel"], d["kind"], d["key"])
                run.failing({"kind": "unreachable-dependency", "dep": d["kind"], "position": pos}, [c],
                            "case %d (%s): the extended resource %s depends on %s %s (position %s) but the reverse path does not map it back"
                            % (cid, c["class"], o["res_key"], d["kind"], d["key"], pos), theorem="Refs.Cases.spec_ok")
        if not spec or any(ev_bad(x) for x in evs if x["kind"] == "usersig" or x["op"] == "relabel-away"):
            seen = set()
            for x in evs:                            # Refs.Cases.ev_spec_ok (APUserSig events: the same observable, judged here)
                bad = ev_bad(x)
                if not bad:
                    continue
                pos = positions(o["skel"], x["kind"], x["key"])
                sig = {"kind": bad, "dep": x["kind"], "op": x["op"], "position": pos}
                if x.get("recreate"):
                    sig["history"] = "policy-recreated"
                if x["kind"] == "secret" and x["key"] in (c["env"].get("default_secret"), c["env"].get("wildcard_secret")):
                    sig["special_secret"] = True
                if json.dumps(sig, sort_keys=True) in seen:
                    continue
                seen.add(json.dumps(sig, sort_keys=True))
                hist = (" [history: Policy %s stored unusable, a Secret synced, the Policy deleted and created again usable]" % x["recreate"]
                        if x.get("recreate") else "")
                what = ("the configuration of %s is not what a regeneration from the stores produces (regenerated=%s)" % (o["res_key"], x["regen"])
                        if bad == "stale-after-event" else
                        "the configuration of %s (regenerated=%s) is not what a controller started afresh on the same cluster writes" % (o["res_key"], x["regen"])
                        if bad == "differs-from-fresh-controller" else
                        "%s, which was observed to depend on it, was not regenerated" % o["res_key"])
                run.failing(sig, [c], "case %d (%s): after the %s of %s %s (position %s) went through the real handler and lbc.sync%s, %s"
                            % (cid, c["class"], x["op"], x["kind"], x["key"], pos, hist, what), theorem="Refs.Cases.ev_spec_ok")
        if not agree:
            parts = [n for n, v in zip(("deps-in-model", "model-in-lookups", "reverse-lookups", "policy-lookups", "reaches-composition",
                                        "theorem-hypotheses", "events"), row[5:10] + row[12:14]) if not v]
            run.failing({"kind": "correspondence", "class": c["class"], "part": "+".join(parts)}, [c],
                        "model and implementation disagree on case %d (%s): %s" % (cid, c["class"], parts),
                        theorem="correspondence Refs.Model ~ internal/k8s create*Ex / reference_checkers.go", found_input=False)


TRUSTED = [
    "Rocq 8.16.1 kernel incl. vm_compute (no native_compute); no axioms (Print Assumptions: closed)",
    "hand-written model coq/Refs/Model.v of createIngressEx/createMergeableIngresses/createVirtualServerEx/createTransportServerEx (forward) and "
    "reference_checkers.go, findPoliciesForSecret, getWAFPoliciesForAppProtect*, the *RequiresEndpointsUpdate filters (backward), tied by the "
    "correspondence harness harness/overlay/internal/verifh/c15 + hook internal/k8s/zz_verif_c15.go on the real functions",
    "the harness's notion of dependency: the extended resource (minus PodsByIP and a minion's AppProtect/Dos fields, which the configurator does not "
    "read) changes when one object of the universe is deleted, changed, repaired or created",
    "fake SecretStore (both levels) and fake appprotect.Configuration (create*Ex level only) supplied through the interfaces the controller "
    "already uses; real appprotectdos.Configuration, Configuration, validators; at event level the real informer handler functions, work "
    "queue, lbc.sync, appprotect.Configuration and configs.Configurator with the real templates over a recording nginx.Manager",
    "event level compares configuration files as multisets of lines (block order of e.g. APIKey maps follows Go map iteration: C09's subject)",
]


def ensure_built():
    """(re)build coq/Refs when a .vo is missing or older than its source (incremental, private makefile)"""
    stale = False
    for f in ("Refs/Model", "Refs/Proofs", "Refs/Cases", "Properties/C15"):
        v, vo = os.path.join(C.COQ, f + ".v"), os.path.join(C.COQ, f + ".vo")
        if not os.path.exists(vo) or os.path.getmtime(vo) < os.path.getmtime(v):
            stale = True
    if stale:
        rc, out = C.coq_make(only=["Base", "Refs", "Properties/C15.v"], tag="c15")
        if rc != 0:
            raise C.TieBroken("coq/Refs does not build: %s" % out[-1500:])


def check(run):
    n = 600 if run.tier == "quick" else 5000
    ensure_built()
    run.proof_obligations()
    binary = C.go_build("c15")
    out = os.path.join(C.WORK, "cases", "c15_%s.jsonl" % run.tier)
    rc, log = C.run_harness(binary, ["-seed", str(run.seed), "-n", str(n), "-out", out, "-tier", run.tier], timeout=3000,
                            env={"VERIF_REPO_DIR": C.REPO})
    if rc != 0:
        raise C.TieBroken("c15 harness failed rc=%d: %s" % (rc, log[-1500:]))
    cases = expand(C.read_jsonl(out))
    shard = 200
    for k in range(0, len(cases), shard):
        part = cases[k:k + shard]
        judge(run, part, evaluate(run, part, "%s_%d" % (run.tier, k // shard)))
    for c in [x for x in cases if x["fam"] == "res" and x["obs"].get("served")][:2]:
        s = {k: c.get(k) for k in ("id", "class", "env", "vs", "ts", "ing", "minions") if c.get(k) is not None}
        s["obs"] = {"res_key": c["obs"]["res_key"], "dependencies": deps_of(c["obs"]),
                    "unreachable": [r for r in c["obs"]["rev"] if r["dep"] and not (r["direct"] or r["via"])][:3]}
        run.sample(s)
    run.cov["rule"] = ("one served resource per case (VirtualServer with 1-3 upstreams/routes and 0-3 VirtualServerRoutes in the same or another "
                       "namespace; TransportServer; class multi: 2-3 served resources of different kinds in one Configuration that share namespace and "
                       "name (control: distinct names), VirtualServer host sorting before or after the Ingress hosts, each resource observed separately; Ingress with TLS/annotations/default+path backends and an optional rival owning a host; master with "
                       "1-3 minions incl. contested paths) over a random cluster of 2 namespaces x (4 services, 3 secrets, 4 policies of all kinds incl. "
                       "invalid / wrong class, 2 AP policies (a third of them with a signature requirement), 2 AP log confs, 2 DosProtectedResources naming an "
                       "APDosPolicy and/or APDosLogConf by name or ns/name, 2 APDosPolicies, 2 APDosLogConfs) plus up to 2 APUserSigs, with missing and unusable objects; NGINX OSS / Plus / "
                       "Plus+AppProtect+DoS.  Per case: (a) the real createExtendedResources with recording stores, and again after deleting / changing / repairing / "
                       "creating each of the 56+ objects of the universe (dependency = the result differs); (b) the real FindResourcesFor*, second-hop "
                       "functions and endpoints filters for every object; (c) for every dependency and two non-dependencies, a fresh controller with the real "
                       "Configurator and templates, the notification (add / update / irrelevant update / delete) through the real handler, work queue and "
                       "lbc.sync (event kinds: add, update, for an EndpointSlice also a metadata-only update and label-only updates that move a slice to or "
                       "away from the Service, update whose new version fails validation, update that repairs an unusable object, irrelevant "
                       "Service update, delete), then: was the resource's file rewritten, and would a regeneration still change it.  A case is distinct by its full input "
                       "and non-trivial when the resource depends on at least one object.")
    run.cov["trusted_base"] = TRUSTED
    run.assumptions += [
        "an ExternalName Service has no EndpointSlices (Kubernetes creates none); the generator never gives it one",
        "areCustomResourcesEnabled = true (the secret -> policy hop of syncSecret is guarded by it; without it no VirtualServer exists)",
        "names and namespaces of existing objects contain neither '/' nor ',' (hypothesis valid_name of the theorems)",
        "pods (subselector, health checks) are consulted by create*Ex but are not among the kinds C15 names; not modelled",
        "the edge APUserSig -> APPolicy (signature requirements, decided inside appprotect.Configuration: C19's subject) is not in the model; "
        "its events (add / update / update-to-invalid / delete of every APUserSig) are driven through the real handler and lbc.sync and judged by the "
        "model-free observable only; informer resync as a safety net is not modelled",
        "at most one served resource of each kind per Configuration (plus minions / routes / a rival Ingress): syncEndpointSlices updates all found "
        "resources of a class as soon as one requires it, so with several resources of one class [reaches] is a lower bound",
    ]


def replay(run, path):
    ensure_built()
    binary = C.go_build("c15")
    out = os.path.join(C.WORK, "cases", "c15_replay.jsonl")
    rc, log = C.run_harness(binary, ["-replay", path, "-out", out], timeout=600, env={"VERIF_REPO_DIR": C.REPO})
    if rc != 0:
        raise C.TieBroken("c15 harness failed on replay: %s" % log[-1500:])
    cases = expand(C.read_jsonl(out))
    res = evaluate(run, cases, "replay")
    rows = {r[0]: r for r in res}
    for c in cases:
        o = c["obs"]
        if c["fam"] == "inv":
            print("replay case %d: field inventory %s" % (c["id"], o["fields"]))
            continue
        r = rows.get(c["eid"])
        print("replay case %d (%s): impl served=%s resource=%s dependencies=%s" % (c["id"], c["class"], o.get("served"), o.get("res_key"),
                                                                                 json.dumps(deps_of(o)) if o.get("served") else "-"))
        if o.get("served"):
            print("   impl reverse path misses: %s" % json.dumps([x for x in o["rev"] if x["dep"] and not (
                (x["direct"] and x["req"]) if x["kind"] == "endpoints" else (x["direct"] or x["via"]))]))
        if r:
            print("   impl events: %s" % json.dumps([[x["op"], x["kind"], x["key"], "regen" if x["regen"] else "no-regen",
                                                      "STALE" if x["stale"] else "fresh"] for x in o.get("events") or []]))
            print("   model-agrees=%d spec=%d model-deps=%d parts(deps-in-model,model-in-lookups,rev,pols,reaches,hyps,events)=%s refuted-positions=%d"
                  % (r[1], r[2], r[4], r[5:10] + r[12:14], r[11]))
    judge(run, cases, res)
