(* C11 -- Secret material on disk is always the latest valid version, and vanishes with it.
   Only statements, each closed by [exact], each followed by Print Assumptions.

   Vocabulary (coq/Secrets/Model.v, Spec.v):
     run cadel h        state of store + secrets directory after the history h of AddOrUpdateSecret /
                        DeleteSecret / GetSecret / Ingress-with-JWT-or-basic-auth-annotation operations;
                        cadel = false: Configurator.DeleteSecret as it stands, true: repaired (fixes/F34.diff)
     cur h k, asked h k the current version of Secret k, and whether k was asked for since it was last
                        invalid or absent -- both defined on the history alone
     names_of_key k     the file names derivable from k: ns-name, ns-name-ca.crt, ns-name-ca.crl
     derived n v        the files (name, mode, bytes) version v derives to under file name n
     hist_ok cadel U g h   admissible history: Kubernetes names without slash, keys in the cluster U,
                        Secret.type immutable while the Secret exists, and (unless repaired) no CA secret
   Validity of a version (vvalid) and its derived bytes are data of each operation: all theorems
   quantify over them. *)
From Coq Require Import List ZArith String Bool.
From NIC Require Import Base.SMap Secrets.Model Secrets.Spec Secrets.ProofsNames Secrets.Proofs Secrets.ProofsMore Secrets.ProofsCtl Secrets.ProofsPath.
Import ListNotations.

(* Every file in the secrets directory, after every admissible history, is the derivation of the
   CURRENT version of some Secret; that version is valid; the Secret was asked for.  No hypothesis
   on file names: this part holds even for colliding names. *)
Theorem C11_inv :
  forall (cadel : bool) (U : string -> Prop) (h : list op),
    hist_ok cadel U gempty h ->
    forall f c, lookup f (files (run cadel h)) = Some c ->
      exists k v, U k /\ cur h k = Some v /\ vvalid v = true /\ asked h k = true /\
                  assoc f (derived (key_to_fname k) v) = Some c.
Proof. exact every_file_justified. Qed.
Print Assumptions C11_inv.

(* what "asked for" means: some GetSecret k happened while k's version was valid, or an Ingress
   naming k in its JWT / basic-auth annotation was configured while k existed, and since then k
   was neither deleted nor updated to an invalid version *)
Theorem C11_asked_means :
  forall (h : list op) (k : string),
    asked h k = true ->
    exists h1 o h2, h = (h1 ++ o :: h2)%list /\ keeps_valid k h2 /\
      ((o = Get k /\ exists v, cur h1 k = Some v /\ vvalid v = true) \/
       (exists ns name, o = ForcePath ns name /\ key_of ns name = k /\ cur h1 k <> None)).
Proof. exact asked_spec. Qed.
Print Assumptions C11_asked_means.

(* Per Secret, when the Secrets of the cluster never share a file name (explicit hypothesis):
   a file under one of k's names exists only if k's current version is valid and k was asked for,
   and its content is the derivation of exactly that version. *)
Theorem C11_inv_per_secret :
  forall (cadel : bool) (U : string -> Prop),
    (forall k1 k2, U k1 -> U k2 -> k1 <> k2 -> names_disjoint k1 k2) ->
    forall (h : list op) (k f : string) (c : file),
      hist_ok cadel U gempty h -> U k -> In f (names_of_key k) ->
      lookup f (files (run cadel h)) = Some c ->
      exists v, cur h k = Some v /\ vvalid v = true /\ asked h k = true /\
                assoc f (derived (key_to_fname k) v) = Some c.
Proof. exact file_only_if_valid_and_asked. Qed.
Print Assumptions C11_inv_per_secret.

(* ... in both directions: under each of k's names the directory holds exactly what is expected
   (the derivation of the current version if valid and asked for, nothing otherwise) *)
Theorem C11_files_exact :
  forall (cadel : bool) (U : string -> Prop),
    (forall k1 k2, U k1 -> U k2 -> k1 <> k2 -> names_disjoint k1 k2) ->
    forall (h : list op) (k : string),
      hist_ok cadel U gempty h -> U k ->
      forall f, In f (names_of_key k) ->
        lookup f (files (run cadel h)) = assoc f (expected (grun h) k).
Proof. exact key_files_exact_run. Qed.
Print Assumptions C11_files_exact.

(* When the Secret becomes invalid its files are removed ... *)
Theorem C11_invalid_removes :
  forall (cadel : bool) (U : string -> Prop),
    (forall k1 k2, U k1 -> U k2 -> k1 <> k2 -> names_disjoint k1 k2) ->
    forall (h : list op) (ns name : string) (v : ver),
      hist_ok cadel U gempty (h ++ [Upsert ns name v]) -> vvalid v = false ->
      forall f, In f (names_of_key (key_of ns name)) ->
        lookup f (files (run cadel (h ++ [Upsert ns name v]))) = None.
Proof. exact invalid_removes. Qed.
Print Assumptions C11_invalid_removes.

(* ... and when it is deleted ... *)
Theorem C11_delete_removes :
  forall (cadel : bool) (U : string -> Prop),
    (forall k1 k2, U k1 -> U k2 -> k1 <> k2 -> names_disjoint k1 k2) ->
    forall (h : list op) (k : string),
      hist_ok cadel U gempty (h ++ [Delete k]) -> U k ->
      forall f, In f (names_of_key k) -> lookup f (files (run cadel (h ++ [Delete k]))) = None.
Proof. exact delete_removes. Qed.
Print Assumptions C11_delete_removes.

(* ... and they stay away for as long as there is no valid current version *)
Theorem C11_no_valid_no_files :
  forall (cadel : bool) (U : string -> Prop),
    (forall k1 k2, U k1 -> U k2 -> k1 <> k2 -> names_disjoint k1 k2) ->
    forall (h : list op) (k : string),
      hist_ok cadel U gempty h -> U k ->
      (forall v, cur h k = Some v -> vvalid v = false) ->
      forall f, In f (names_of_key k) -> lookup f (files (run cadel h)) = None.
Proof. exact no_valid_no_files. Qed.
Print Assumptions C11_no_valid_no_files.

(* A reference reports the error exactly when the history leaves no valid current version.
   For EVERY history, without any hypothesis. *)
Theorem C11_get_reports_error :
  forall (cadel : bool) (h : list op) (k : string) (st' : state) (p : string) (e : bool),
    step cadel (run cadel h) (Get k) = (st', Some (p, e)) -> e = get_err_expected (grun h) k.
Proof. exact get_reports_error. Qed.
Print Assumptions C11_get_reports_error.

(* the same for the reference handed to the Configurator with an Ingress, although the
   Configurator overwrites its Path *)
Theorem C11_force_reports_error :
  forall (cadel : bool) (h : list op) (ns name : string) (st' : state) (p : string) (e : bool),
    step cadel (run cadel h) (ForcePath ns name) = (st', Some (p, e)) ->
    e = get_err_expected (grun h) (key_of ns name).
Proof. exact force_reports_error. Qed.
Print Assumptions C11_force_reports_error.

(* A lookup of a valid Secret materialises it at once, with the content of the current version
   (so an update is never served from a stale file). *)
Theorem C11_get_materialises :
  forall (cadel : bool) (U : string -> Prop),
    (forall k1 k2, U k1 -> U k2 -> k1 <> k2 -> names_disjoint k1 k2) ->
    forall (h : list op) (k : string) (v : ver) (f : string) (c : file),
      hist_ok cadel U gempty h -> U k -> cur h k = Some v -> vvalid v = true ->
      assoc f (derived (key_to_fname k) v) = Some c ->
      lookup f (files (run cadel (h ++ [Get k]))) = Some c.
Proof. exact get_materialises. Qed.
Print Assumptions C11_get_materialises.

(* Distinct Secrets never share a file -- for all strings -- when namespaces contain no dash and
   Secret names do not end in -ca.crt / -ca.crl ... *)
Theorem C11_names_distinct_when_dashfree :
  forall k1 k2 : string,
    dashfree_key k1 -> dashfree_key k2 -> k1 <> k2 ->
    forall f, In f (names_of_key k1) -> In f (names_of_key k2) -> False.
Proof. exact names_disjoint_dashfree. Qed.
Print Assumptions C11_names_distinct_when_dashfree.

(* ... hence for such clusters the exact characterisation holds without further hypothesis *)
Theorem C11_files_exact_dashfree :
  forall (cadel : bool) (h : list op) (k : string),
    hist_ok cadel dashfree_key gempty h -> dashfree_key k ->
    forall f, In f (names_of_key k) ->
      lookup f (files (run cadel h)) = assoc f (expected (grun h) k).
Proof. exact (fun cadel => key_files_exact_run cadel dashfree_key names_disjoint_dashfree). Qed.
Print Assumptions C11_files_exact_dashfree.

(* REFUTED in general (finding F09): a-b/c and a/b-c are distinct Secrets with Kubernetes-legal
   names and the same file a-b-c; after an otherwise admissible history the file of a/b-c holds the
   key material of a-b/c, for both variants of DeleteSecret. *)
Theorem secret_file_name_refuted :
  exists ns1 name1 ns2 name2,
    no_slash ns1 /\ no_slash name1 /\ no_slash ns2 /\ no_slash name2 /\
    key_of ns1 name1 <> key_of ns2 name2 /\ fname ns1 name1 = fname ns2 name2 /\
    forall cadel,
      hist_ok cadel anyU gempty h_collision /\
      cur h_collision (key_of ns2 name2) = Some vB /\ asked h_collision (key_of ns2 name2) = true /\
      lookup (fname ns2 name2) (files (run cadel h_collision)) = Some (mode_rw_only, vmain vA) /\
      ~ key_files_exact (grun h_collision) (files (run cadel h_collision)) (key_of ns2 name2).
Proof. exact ProofsMore.secret_file_name_refuted. Qed.
Print Assumptions secret_file_name_refuted.

(* ... and deleting a-b/c removes the file a/b-c still points to *)
Theorem C11_collision_delete_refuted :
  forall cadel,
    let h := (h_collision ++ [Delete "a-b/c"%string])%list in
    hist_ok cadel anyU gempty h /\
    cur h "a/b-c"%string = Some vB /\ asked h "a/b-c"%string = true /\
    lookup "a-b-c"%string (files (run cadel h)) = None.
Proof. exact secret_file_name_delete_refuted. Qed.
Print Assumptions C11_collision_delete_refuted.

(* REFUTED for the code as it stands (finding F34): the files of a CA secret survive its deletion;
   with the repaired DeleteSecret the same history leaves an empty directory. *)
Theorem C11_delete_removes_refuted_for_ca :
  cur h_ca_leak "default/x"%string = None /\
  lookup "default-x-ca.crt"%string (files (run false h_ca_leak)) = Some (mode_rw_only, "CRT"%string) /\
  lookup "default-x-ca.crl"%string (files (run false h_ca_leak)) = Some (mode_rw_only, "CRL"%string) /\
  ~ key_files_exact (grun h_ca_leak) (files (run false h_ca_leak)) "default/x"%string /\
  hist_ok true anyU gempty h_ca_leak /\ files (run true h_ca_leak) = [].
Proof. exact ca_files_leak_refuted. Qed.
Print Assumptions C11_delete_removes_refuted_for_ca.

(* REFUTED without the immutability of Secret.type (finding F35): jwk -> oidc under the same key *)
Theorem C11_type_change_refuted :
  forall cadel,
    cur h_retype "default/x"%string = Some vO /\
    derived "default-x"%string vO = [] /\
    lookup "default-x"%string (files (run cadel h_retype)) = Some (mode_jwk, "J"%string) /\
    ~ key_files_exact (grun h_retype) (files (run cadel h_retype)) "default/x"%string.
Proof. exact type_change_refuted. Qed.
Print Assumptions C11_type_change_refuted.

(* REFUTED inside one dash-free namespace (finding F36): CA secret x and Secret x-ca.crt *)
Theorem C11_ca_suffix_collision_refuted :
  no_dash "default"%string /\
  In "default-x-ca.crt"%string (names_of_key "default/x"%string) /\
  In "default-x-ca.crt"%string (names_of_key "default/x-ca.crt"%string) /\
  hist_ok true anyU gempty h_ca_suffix /\
  cur h_ca_suffix "default/x-ca.crt"%string = Some vB /\ asked h_ca_suffix "default/x-ca.crt"%string = true /\
  lookup "default-x-ca.crt"%string (files (run true h_ca_suffix)) = Some (mode_rw_only, "CRT"%string) /\
  ~ key_files_exact (grun h_ca_suffix) (files (run true h_ca_suffix)) "default/x-ca.crt"%string.
Proof. exact ca_suffix_collision_refuted. Qed.
Print Assumptions C11_ca_suffix_collision_refuted.

(* the decidable check evaluated on the implementation's directory listings (Secrets/Cases.v)
   is the declarative statement of C11_files_exact *)
Theorem C11_spec_decides :
  forall (g : ghost) (d : disk) (k : string), key_ok g d k = true <-> key_files_exact g d k.
Proof. exact key_ok_iff. Qed.
Print Assumptions C11_spec_decides.

(* Every reference handed out after an admissible history names only files derived from the very
   Secret it refers to (nothing, ns-name, or the two CA files of ns-name) -- although the Configurator
   overwrites Path inside the store's own reference for Ingress JWT / basic-auth annotations
   (masters, minions and plain Ingresses, each with its OWN namespace). *)
Theorem C11_reference_names_own_files :
  forall (cadel : bool) (U : string -> Prop) (h : list op) (k : string) (st' : state) (p : string) (e : bool),
    hist_ok cadel U gempty h -> Forall force_ok h ->
    step cadel (run cadel h) (Get k) = (st', Some (p, e)) -> path_ok k p = true.
Proof. exact reference_names_own_files. Qed.
Print Assumptions C11_reference_names_own_files.

(* the path the Configurator forces onto the reference of an annotated Ingress in namespace ns is
   the file name of the Secret ns/name *)
Theorem C11_forced_path_is_own :
  forall (cadel : bool) (h : list op) (ns name : string) (st' : state) (p : string) (e : bool),
    step cadel (run cadel h) (ForcePath ns name) = (st', Some (p, e)) -> p = fname ns name.
Proof. exact force_names_own_file. Qed.
Print Assumptions C11_forced_path_is_own.

(* ---- the controller in front of the store (createSecretHandlers, work queue, syncSecret) ----
   crun cinit h   a cluster-level history h (object created/updated, deleted, worker drains the
                  queue, a resource looks a Secret up, the start-up step preSyncSecrets, a namespace
                  loses / gets the watch label) run through the model of handlers + queue + syncSecret +
                  preSyncSecrets + cleanupUnwatchedNamespacedResources; c_seen is what the informer caches
                  hold (the cluster's objects of the watched namespaces): final informer store / queue, and the store-level history it amounts to
                  (compile h).  chist_ok: ValidateSecret rejects unsupported types, an update keeps
                  the type.  All theorems above apply to [compile h]; these connect them to the cluster. *)

(* For every Secret with no outstanding task: what the store holds as its current version is the
   object the cluster holds, or neither side has a valid version -- although the handlers drop
   every event about a Secret of an unsupported type. *)
Theorem C11_controller_agrees :
  forall (h : list cev) (k : string),
    chist_ok cinit h -> in_pendb k (c_pend (fst (crun cinit h))) = false ->
    agree1 (c_seen (fst (crun cinit h)) k) (cur (compile h) k).
Proof. exact controller_agrees. Qed.
Print Assumptions C11_controller_agrees.

(* a file under one of k's names is the derivation of the valid object the CLUSTER holds now *)
Theorem C11_controller_file_is_current :
  forall (cadel : bool) (U : string -> Prop),
    (forall k1 k2, U k1 -> U k2 -> k1 <> k2 -> names_disjoint k1 k2) ->
    forall (h : list cev) (k f : string) (c : file),
      chist_ok cinit h -> hist_ok cadel U gempty (compile h) -> U k ->
      in_pendb k (c_pend (fst (crun cinit h))) = false ->
      In f (names_of_key k) -> lookup f (files (run cadel (compile h))) = Some c ->
      exists v, c_seen (fst (crun cinit h)) k = Some v /\ vvalid v = true /\
                assoc f (derived (key_to_fname k) v) = Some c.
Proof. exact controller_file_is_current. Qed.
Print Assumptions C11_controller_file_is_current.

(* the cluster holds no valid object under k (deleted, invalid, re-created with an unsupported
   type ...) and the worker has caught up: none of k's files exists *)
Theorem C11_controller_gone_means_removed :
  forall (cadel : bool) (U : string -> Prop),
    (forall k1 k2, U k1 -> U k2 -> k1 <> k2 -> names_disjoint k1 k2) ->
    forall (h : list cev) (k : string),
      chist_ok cinit h -> hist_ok cadel U gempty (compile h) -> U k ->
      in_pendb k (c_pend (fst (crun cinit h))) = false ->
      dead (c_seen (fst (crun cinit h)) k) ->
      forall f, In f (names_of_key k) -> lookup f (files (run cadel (compile h))) = None.
Proof. exact controller_gone_means_removed. Qed.
Print Assumptions C11_controller_gone_means_removed.

(* and a reference reports an error exactly when the cluster holds no valid object *)
Theorem C11_controller_get_reports_error :
  forall (cadel : bool) (h : list cev) (k : string) (st' : state) (p : string) (e : bool),
    chist_ok cinit h -> in_pendb k (c_pend (fst (crun cinit h))) = false ->
    step cadel (run cadel (compile h)) (Get k) = (st', Some (p, e)) ->
    e = deadb (c_seen (fst (crun cinit h)) k).
Proof. exact controller_get_reports_error. Qed.
Print Assumptions C11_controller_get_reports_error.

(* what an informer cache holds is an object of the cluster *)
Theorem C11_controller_cache_is_cluster :
  forall (h : list cev) (k : string) (v : ver),
    chist_ok cinit h -> c_seen (fst (crun cinit h)) k = Some v -> c_api (fst (crun cinit h)) k = Some v.
Proof. exact seen_is_cluster_object. Qed.
Print Assumptions C11_controller_cache_is_cluster.

(* "only if some resource has asked for it": a store history without any lookup leaves the
   secrets directory empty ... *)
Theorem C11_no_lookup_no_files :
  forall (cadel : bool) (U : string -> Prop) (h : list op),
    hist_ok cadel U gempty h -> forallb (fun o => negb (is_lookup o)) h = true ->
    files (run cadel h) = [].
Proof. exact no_lookup_no_files. Qed.
Print Assumptions C11_no_lookup_no_files.

(* ... so whatever the cluster holds (valid, invalid, supported, unsupported Secrets, watched or
   not) and whatever events, worker runs, start-up steps (preSyncSecrets) and namespace changes
   happen: nothing is in the secrets directory as long as no resource has looked a Secret up *)
Theorem C11_controller_writes_nothing_unasked :
  forall (cadel : bool) (U : string -> Prop) (h : list cev),
    hist_ok cadel U gempty (compile h) -> forallb (fun e => negb (is_cget e)) h = true ->
    files (run cadel (compile h)) = [].
Proof. exact controller_writes_nothing_unasked. Qed.
Print Assumptions C11_controller_writes_nothing_unasked.

(* REFUTED across a process restart (finding F10): the store starts empty over the surviving
   directory and nothing sweeps it -- the file of a Secret deleted while the process was down stays *)
Theorem C11_restart_leftover_refuted :
  let st0 := run false [Upsert "default" "x" vA; Get "default/x"]%string in
  let c1 := crestart (mkc (fun _ => None) (fun _ => None) [] [("default", "x")]%string []) in
  let st1 := fold_left (step_st false) (snd (cstep c1 CStart)) (restart_state st0) in
  c_seen c1 "default/x"%string = None /\ store st1 = [] /\
  files st1 = [("default-x", (mode_rw_only, "A"))]%string.
Proof. exact restart_leftover_refuted. Qed.
Print Assumptions C11_restart_leftover_refuted.

(* The hypotheses are satisfiable by a non-trivial history: three Secrets (TLS updated after
   being materialised; JWK referenced by an Ingress while invalid, then made valid; CA), ending
   with four files in the directory. *)
Example C11_example_admissible : hist_ok true dashfree_key gempty h_example.
Proof. exact h_example_ok. Qed.
Example C11_example_files :
  files (run true h_example) =
  [("default-s1", (mode_rw_only, "B")); ("prod-ca-ca.crl", (mode_rw_only, "CRL"));
   ("prod-ca-ca.crt", (mode_rw_only, "CRT")); ("team-j", (mode_jwk, "J"))]%string.
Proof. exact h_example_files. Qed.

(* the scenario of a TLS Secret in use that is deleted and re-created as Opaque before the worker
   runs: admissible, the worker performs one update with the Opaque object, the file goes and the
   reference reports the error *)
Example C11_example_recreated_unsupported :
  chist_ok cinit ch_recreated /\
  compile ch_recreated = [Upsert "default" "x" vA; Get "default/x"; Upsert "default" "x" vOpaque]%string /\
  files (run false (compile (firstn 3 ch_recreated))) = [("default-x", (mode_rw_only, "A"))]%string /\
  files (run false (compile ch_recreated)) = [] /\
  snd (step false (run false (compile ch_recreated)) (Get "default/x"%string)) = Some (""%string, true).
Proof. exact ch_recreated_ok. Qed.

(* start-up over a cluster with an unreferenced valid TLS Secret, a referenced one, an invalid one
   and an Opaque one: preSyncSecrets writes nothing; the first lookup writes exactly that file *)
Example C11_example_startup :
  chist_ok cinit ch_startup /\
  compile ch_startup = [Upsert "team" "s1" vB; Upsert "default" "x" vA; Upsert "default" "s2" vAbad]%string /\
  files (run false (compile ch_startup)) = [] /\
  files (run false (compile (ch_startup ++ [CGet "default/x"%string]))) = [("default-x", (mode_rw_only, "A"))]%string.
Proof. exact ch_startup_ok. Qed.
