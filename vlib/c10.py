"""C10 -- files on disk are in one-to-one correspondence with the resources being served."""
import os, json
from . import common as C

BIT_COLLISION, BIT_LEFTOVER, BIT_STALE_PAIR, BIT_OTHER = 1, 2, 4, 8

# Manager methods that remove or enumerate files; none may be called from main.go's start-up code
SWEEPING = {"DeleteConfig", "DeleteStreamConfig", "ClearAppProtectFolder", "DeleteSecret", "DeleteAppProtectResourceFile",
            "DeleteKeyValStateFiles"}
# every os.Remove*/os.ReadDir/filepath.Glob/Walk* call site of main.go and manager.go the restart model was written against
FS_OPS = ["main.go:handleTermination:os.ReadDir", "main.go:handleTermination:os.Remove",
          "manager.go:ClearAppProtectFolder:os.ReadDir", "manager.go:DeleteAppProtectResourceFile:os.Remove",
          "manager.go:DeleteKeyValStateFiles:os.ReadDir", "manager.go:DeleteKeyValStateFiles:os.Remove",
          "manager.go:DeleteSecret:os.Remove", "manager.go:deleteConfig:os.Remove"]


def cq_add(r):
    k = r["kind"]
    ns, name, st = C.cq_str(r["ns"]), C.cq_str(r["name"]), C.cq_z(r["stamp"])
    if k == "ing":
        return "(AddIng %s %s %s)" % (ns, name, st)
    if k == "ming":
        return "(AddMIng %s %s %s %s)" % (ns, name, st, C.cq_list(["(%s, %s)" % (C.cq_str(m[0]), C.cq_str(m[1])) for m in r.get("minions") or []]))
    if k == "vs":
        return "(AddVS %s %s %s)" % (ns, name, st)
    if k == "ts":
        return "(AddTS %s %s %s %s %s)" % (ns, name, st, C.cq_bool(r.get("pt", False)), C.cq_str(r.get("host", "")))
    raise ValueError(k)


def cq_pairs(ps):
    return C.cq_list(["(%s, %s)" % (C.cq_str(p[0]), C.cq_str(p[1])) for p in ps or []])


KIND = {"ing": "KIng", "vs": "KVS", "ts": "KTS"}


def cq_event(e):
    op = e["op"]
    adds = C.cq_list([cq_add(r) for r in e.get("adds") or []])
    if op == "add":
        return "(Op (Add %s))" % cq_add(e["res"])
    if op == "del":
        return "(Op (Del %s %s %s))" % (KIND[e["kind"]], C.cq_str(e.get("ns", "")), C.cq_str(e.get("name", "")))
    if op == "upd_vss":
        return "(Op (UpdateVSs %s %s))" % (adds, cq_pairs(e.get("dels")))
    if op == "upd_tss":
        return "(Op (UpdateTSs %s %s))" % (adds, cq_pairs(e.get("dels")))
    if op == "bdel_vs":
        return "(Op (BatchDelVS %s))" % cq_pairs(e.get("dels"))
    if op == "bdel_ing":
        return "(Op (BatchDelIng %s))" % cq_pairs(e.get("dels"))
    if op in ("add_res", "upd_cfg", "upd_eps"):
        return "(Op (AddResources %s))" % adds
    if op == "restart":
        return "(Restart %s)" % adds
    raise ValueError(op)


def cq_listing(fs):
    return C.cq_list(["(%s, %s)" % (C.cq_str(f["file"]), C.cq_z(f["stamp"])) for f in fs])


def cq_strs(xs):
    return C.cq_list([C.cq_str(x) for x in xs or []])


def cq_view(o):
    st = o["state"]
    return ("{| v_confd := %s; v_stream := %s; v_hosts := %s; v_ings := %s; v_merge := %s; v_minions := %s; "
            "v_vss := %s; v_tss := %s; v_pairs := %s |}") % (
        cq_listing(o["confd"]), cq_listing(o["stream"]), cq_pairs(o["hosts"]),
        cq_strs(st["ingresses"]), cq_strs(st["mergeable"]),
        C.cq_list(["(%s, %s)" % (C.cq_str(m[0]), cq_strs(m[1:])) for m in st.get("minions") or []]),
        cq_strs(st["vs"]), cq_strs(st["ts"]),
        C.cq_list(["(%s, (%s, %s))" % (C.cq_str(p[0]), C.cq_str(p[1]), C.cq_str(p[2])) for p in st.get("pairs") or []]))


def case_to_coq(c, cleanup):
    if c["fam"] == "hist":
        evs = c["events"][:c["fatal"]["at"]] if c.get("fatal") else c["events"]   # the process died: the completed prefix
        return "hist_case %d %s %s %s" % (c["id"], C.cq_bool(cleanup), C.cq_list([cq_event(e) for e in evs]),
                                          C.cq_list([cq_view(o) for o in c["obs"]]))
    if c["fam"] == "names":
        o = c["obs"]
        return "names_case %d %s %s %s %s %s %s %s %s %s" % (
            c["id"], C.cq_bytes(c.get("ns_bytes") or []), C.cq_bytes(c.get("name_bytes") or []),
            C.cq_bytes(o["ing"]), C.cq_bytes(o["ing_key"]), C.cq_bytes(o["vs"]), C.cq_bytes(o["vs_key"]),
            C.cq_bytes(o["ts"]), C.cq_bytes(o["ts_key"]), C.cq_bytes(o["key"]))
    if c["fam"] == "nsl":
        evs, nss = [], []
        for e in c["script"]:
            r = e.get("r") or {}
            if r.get("ns") and r["ns"] not in nss:
                nss.append(r["ns"])
            if e["op"] == "put":
                evs.append("(NPut {| o_kind := %s; o_ns := %s; o_name := %s; o_stamp := %s; o_ok := %s; o_host := %s |})" % (
                    KIND[r["kind"]], C.cq_str(r["ns"]), C.cq_str(r["name"]), C.cq_z(r["stamp"]),
                    C.cq_bool(r.get("class") == "nginx" and not r.get("invalid")), C.cq_str(r.get("host", ""))))
            elif e["op"] == "del":
                evs.append("(NDel %s %s %s)" % (KIND[r["kind"]], C.cq_str(r["ns"]), C.cq_str(r["name"])))
            elif e["op"] == "unlabel":
                evs.append("(NUnlabel %s)" % C.cq_str(e["ns"]))
            elif e["op"] == "gc":
                continue        # GlobalConfiguration events exist only in the arb-gc classes (judged by S only)
            else:
                evs.append("NDrain")
        obs = []
        for k, o in enumerate(c["obs"]):
            view = cq_view({"confd": o["confd"], "stream": o["stream"], "hosts": o["hosts"],
                            "state": {"ingresses": o["watched"], "mergeable": [], "vs": [], "ts": []}})
            obs.append("(%s, %s)" % (C.cq_list([cq_add(r) for r in (c["expect"][k] or [])]), view))
        return "nsl_case %d %s %s %s" % (c["id"], cq_strs(sorted(nss)), C.cq_list(evs), C.cq_list(obs))
    if c["fam"] == "namepair":
        order = ("ing", "ing_key", "vs", "vs_key", "ts", "ts_key", "key")
        return "namepair_case %d %s %s %s %s %s %s" % (
            c["id"], C.cq_bytes(c.get("ns_bytes") or []), C.cq_bytes(c.get("name_bytes") or []),
            C.cq_bytes(c.get("ns2_bytes") or []), C.cq_bytes(c.get("name2_bytes") or []),
            C.cq_list([C.cq_bytes(c["obs"]["a"][k]) for k in order]), C.cq_list([C.cq_bytes(c["obs"]["b"][k]) for k in order]))
    if c["fam"] == "mgr":
        ops = []
        for o in c.get("mops") or []:
            fam = MFAM[o["fam"]]
            if o["op"] == "write":
                ops.append("(MWrite %s %s %s)" % (fam, C.cq_str(o.get("name", "")), C.cq_str(o.get("content", ""))))
            else:
                ops.append("(MDel %s %s)" % (fam, C.cq_str(o.get("name", ""))))
        return "mgr_case %d %s %s" % (c["id"], C.cq_list(ops), C.cq_list([cq_pairs(o) for o in c["obs"]]))
    raise ValueError(c["fam"])


MFAM = {"conf": "MConf", "stream": "MStream", "hosts": "MHosts", "main": "MMain", "secret": "MSecret", "dhparam": "MDhparam", "ap": "MAp"}
EVALUATED = ("hist", "names", "mgr", "namepair", "nsl")


def has_error(c):
    return isinstance(c.get("obs"), dict) and "error" in c["obs"]


def evaluate(run, cases, tag, cleanup, trace=False):
    cases = [c for c in cases if c["fam"] in EVALUATED and not has_error(c)]
    if not cases:
        return []
    body = "From NIC Require Import Base.SMap Files.Model Files.Spec Files.Cases.\n"
    body += "Definition results : list (list Z) := Eval vm_compute in\n  [" + ";\n   ".join(case_to_coq(c, cleanup) for c in cases) + "].\n"
    body += "Print results.\n"
    if trace:
        for c in cases:
            if c["fam"] == "hist":
                body += "Definition trace_%d := Eval vm_compute in model_trace %s %s.\nPrint trace_%d.\n" % (
                    c["id"], C.cq_bool(cleanup), C.cq_list([cq_event(e) for e in c["events"]]), c["id"])
    path = os.path.join(C.WORK, "cases", "C10_%s.v" % tag)
    C.write_cases_v(path, body)
    rc, out = C.coqc(path)
    res = C.parse_z_lists(out, "results")
    if rc != 0 or res is None or len(res) != len(cases):
        raise C.TieBroken("coqc could not evaluate the C10 cases file (%s): %s" % (path, out[-1500:]))
    if trace:
        print(out[out.find("trace_"):][:6000] if "trace_" in out else "")
    return res


def cleanup_variant(cases):
    """Which variant of addOrUpdateTransportServer the tree has: does an update of a passthrough
    TransportServer to a non-passthrough one drop its host from the map (fix F33) or not."""
    for c in cases:
        if c["fam"] == "hist" and c["class"] == "witness-pt-update" and not has_error(c):
            return len(c["obs"][1]["hosts"]) == 0
    return False


def step_problems(c):
    """things the projection itself must guarantee, checked per case"""
    probs = []
    by_stamp = {}
    for k, o in enumerate(c["obs"]):
        if o.get("panic"):
            probs.append("step %d: panic %s" % (k, o["panic"]))
        if o.get("err"):
            probs.append("step %d: operation returned %s" % (k, o["err"]))
        if not o.get("hosts_exists"):
            probs.append("step %d: tls-passthrough-hosts.conf missing" % k)
        if o.get("hosts_junk"):
            probs.append("step %d: unparsable lines in tls-passthrough-hosts.conf" % k)
        if o.get("other"):
            probs.append("step %d: unexpected entries in the root: %s" % (k, o["other"]))
        for d in ("confd", "stream"):
            for f in o[d]:
                if f["stamp"] < 0:
                    probs.append("step %d: %s/%s has no recognisable stamp" % (k, d, f["file"]))
                by_stamp.setdefault((d, f["stamp"]), set()).add(f["hash"])
    for (d, st), hs in by_stamp.items():
        if len(hs) > 1:
            probs.append("stamp %d of %s maps to %d different contents" % (st, d, len(hs)))
    return probs


def judge(run, cases, res):
    byid = {c["id"]: c for c in cases}
    for c in cases:
        if has_error(c):
            run.failing({"kind": "harness-case-error", "fam": c["fam"]}, [c],
                        "the harness could not run case %d (%s) on the implementation: %s" % (c["id"], c["fam"], c["obs"]["error"][:300]),
                        theorem="correspondence harness c10", found_input=False)
    for row in res:
        cid, agree, spec, nontrivial, tag, bits, first_s, first_x = row
        c = byid[cid]
        canon = {k: c.get(k) for k in ("fam", "events", "script", "ns_bytes", "name_bytes", "ns2_bytes", "name2_bytes", "plus", "mops")}
        run.count_case(canon, bool(nontrivial))
        run.cov["traces_validated_against_impl"] += 1
        fam = run.cov.setdefault("by_family", {})
        key = "%s:%s" % (c["fam"], c["class"])
        fam[key] = fam.get(key, 0) + 1
        if c["fam"] == "hist" and c.get("fatal"):
            judge_fatal(run, c)
        if c["fam"] == "nsl":
            for k, o in enumerate(c["obs"]):
                if o.get("panic"):
                    run.failing({"kind": "panic", "fam": "nsl"}, [c], "the real lbc.sync panics while the queue drains (drain %d of case %d, class %s): %s; script %s"
                                % (k, cid, c["class"], o["panic"], json.dumps(c["script"])[:400]), theorem="Files.Spec.spec_ok")
            if c["class"].startswith("arb"):
                agree = 1      # host arbitration is not part of the queue model (Arb family): these histories are judged by S only
        if c["fam"] == "hist":
            run.cov["events_validated"] = run.cov.get("events_validated", 0) + len(c["events"])
            for p in step_problems(c):
                run.failing({"kind": "projection"}, [c],
                            "case %d (%s): %s" % (cid, c["class"], p), theorem="projection of the implementation's files", found_input=False)
        if not spec:
            if c["fam"] == "nsl":
                judge_nsl(run, c, first_s)
                continue
            if c["fam"] == "namepair":
                a = {k: bytes(v).decode("latin-1") for k, v in c["obs"]["a"].items()}
                b = {k: bytes(v).decode("latin-1") for k, v in c["obs"]["b"].items()}
                shared = sorted(k for k in a if a[k] == b[k])
                run.failing({"kind": "collision", "scheme": "+".join(shared) or "delete-name", "fam": "namepair"}, [c],
                            "two different DNS-legal identities %s/%s and %s/%s get the same name from %s (%s), or an identity is deleted under "
                            "another name than it is written under (case %d, class %s)"
                            % (bytes(c["ns_bytes"]).decode(), bytes(c["name_bytes"]).decode()[-24:], bytes(c["ns2_bytes"]).decode(),
                               bytes(c["name2_bytes"]).decode()[-24:], shared, (a.get(shared[0]) if shared else "")[-40:], cid, c["class"]),
                            theorem="Files.Cases.namepair_case (vs_file_name_injective / ts_file_name_injective on the real helpers)")
                continue
            if c["fam"] == "mgr":
                op = c["mops"][first_s] if 0 <= first_s < len(c["mops"]) else None
                run.failing({"kind": "spec", "fam": "mgr", "family": (op or {}).get("fam"), "op": (op or {}).get("op")}, [c],
                            "after a LocalManager file operation the file does not hold exactly the written bytes / is not gone, or another file moved "
                            "(case %d, class %s, first at call %d: %s; listing after it: %s)"
                            % (cid, c["class"], first_s, json.dumps(op), json.dumps(c["obs"][first_s] if op else None)[:300]),
                            theorem="Files.Cases.mstep_ok")
                continue
            if c["fam"] == "names":
                run.failing({"kind": "spec", "fam": "names"}, [c],
                            "the name under which a resource is written and the name under which it is deleted differ (case %d): %s"
                            % (cid, json.dumps(c["obs"])[:300]), theorem="Files.Cases.names_case")
                continue
            step = c["events"][first_s] if 0 <= first_s < len(c["events"]) else None
            what = "C10 one-to-one correspondence fails on the implementation's own listing (case %d, class %s, first at step %d: %s)" % (
                cid, c["class"], first_s, json.dumps(step)[:200])
            if bits & BIT_COLLISION:
                run.failing({"kind": "collision", "scheme": "ingress_file_name"}, [c], what + " [two Ingress keys whose ns-name concatenations coincide]",
                            theorem="Files.Spec.spec_ok")
            if bits & BIT_LEFTOVER:
                run.failing({"kind": "restart-leftover", "cause": "deleted-while-down", "sweep": "none"}, [c],
                            what + " [file of a resource deleted while the controller was down survives the restart]", theorem="Files.Spec.spec_ok")
            if bits & BIT_STALE_PAIR:
                run.failing({"kind": "stale-passthrough-pair", "site": "addOrUpdateTransportServer"}, [c],
                            what + " [host of a TransportServer that is no longer TLS passthrough stays in tls-passthrough-hosts.conf]",
                            theorem="Files.Spec.spec_ok")
            if bits & BIT_OTHER or bits == 0:
                run.failing({"kind": "spec", "fam": "hist", "class": c["class"]}, [c], what, theorem="Files.Spec.spec_ok")
        if not agree:
            step = c.get("events", [None])[first_x] if c["fam"] == "hist" and 0 <= first_x < len(c["events"]) else None
            if c["fam"] == "mgr" and 0 <= first_x < len(c["mops"]):
                step = c["mops"][first_x]
            if c["fam"] == "nsl":
                step = {"drain": first_x, "script": c["script"]}
            run.failing({"kind": "correspondence", "fam": c["fam"]}, [c],
                        "model and implementation disagree (family %s, class %s, case %d, first at step %d: %s)%s"
                        % (c["fam"], c["class"], cid, first_x, json.dumps(step)[:200],
                           "" if not spec else " while the specification still holds on the listing"),
                        theorem="correspondence Files.Model ~ internal/configs/configurator.go + internal/nginx/manager.go", found_input=False)


NAME_MAX = 255


def path_len(kind, ns, name):
    return len(ns.encode()) + len(name.encode()) + (6 if kind in ("ing", "ming") else 9)


def event_adds(e):
    if e["op"] == "add":
        return [e["res"]]
    return e.get("adds") or []


def file_of(kind, ns, name):
    return ("%s-%s.conf" % (ns, name)) if kind in ("ing", "ming") else "%s_%s_%s.conf" % (kind, ns, name)


def judge_nsl(run, c, k):
    """S failed at drain k: name the files that are there without a served owner / missing, and why their owner is not served"""
    o, exp = c["obs"][k], c["expect"][k] or []
    want = {file_of(r["kind"], r["ns"], r["name"]) for r in exp}
    have = {f["file"] for f in o["confd"]} | {f["file"] for f in o["stream"]}
    cause_of = {file_of(u["kind"], u["ns"], u["name"]): u["cause"] for u in (c["unserved"][k] or [])}
    extra, missing = sorted(have - want), sorted(want - have)
    causes = sorted({cause_of.get(f, "unknown") for f in extra})
    what = ("after the work queue drained (drain %d of case %d, class %s) the files on disk are not the files of the served resources: "
            "left over %s (owner not served because: %s), missing %s, passthrough hosts %s" % (k, c["id"], c["class"], extra, causes, missing, o["hosts"]))
    if extra and not missing and causes == ["deleted-behind-namespace-task"]:
        run.failing({"kind": "unwatched-namespace-leftover", "cause": "deleted-behind-namespace-task"}, [c], what, theorem="C10_unwatched_namespace_refuted")
    else:
        run.failing({"kind": "spec", "fam": "nsl", "cause": "+".join(causes) or "missing"}, [c], what, theorem="Files.Spec.spec_ok")


def judge_fatal(run, c):
    """the process running the history ended: known only when the event writes a file whose name exceeds NAME_MAX"""
    at = c["fatal"]["at"]
    e = c["events"][at] if at < len(c["events"]) else None
    too_long = [r for r in (event_adds(e) if e else []) if path_len(r["kind"], r["ns"], r["name"]) > NAME_MAX]
    what = "the controller process ends (exit %s) while executing event %d of case %d (%s): %s" % (
        c["fatal"]["exit"], at, c["id"], c["class"], json.dumps(e)[:160])
    if too_long:
        r = too_long[0]
        run.failing({"kind": "name-too-long", "effect": "process-exit"}, [c],
                    what + " [file name of %s %s/...%s is %d bytes > NAME_MAX]" % (r["kind"], r["ns"], r["name"][-12:], path_len(r["kind"], r["ns"], r["name"])),
                    theorem="C10_file_name_length_refuted")
    else:
        run.failing({"kind": "process-exit", "fam": "hist"}, [c], what, theorem="Files.Spec.spec_ok")


TRUSTED = [
    "Rocq 8.16.1 kernel incl. vm_compute (no native_compute); no axioms (Print Assumptions: closed)",
    "hand-written model coq/Files/Model.v of the file-creating/deleting part of internal/configs/configurator.go over LocalManager, "
    "tied by the correspondence harness harness/overlay/internal/verifh/c10 (real Configurator, real templates, real LocalManager file "
    "operations on a temporary root; only Reload is replaced) and by S evaluated on the real directory listings",
    "the start-up sequence of cmd/nginx-ingress/main.go is transcribed in the harness (main() cannot be run); a syntactic census of the "
    "Manager methods called from main.go and of every os.Remove/ReadDir/Glob/Walk call site guards the claim that start-up never sweeps conf.d / stream-conf.d",
    "projection of a file's content to a stamp (server_name s<N>.example.com / upstream ..._s<N>) -- checked per case: one stamp, one content hash",
    "the kubelet keeps an emptyDir volume across container restarts (deployments/deployment/nginx-ingress.yaml mounts /etc/nginx on emptyDir "
    "when readOnlyRootFilesystem is used); os.Create/os.Remove failures (Fatalf / logged) are not modelled",
]


def startup_obligations(run, cases):
    for c in cases:
        if c["fam"] != "startup":
            continue
        if has_error(c):
            run.add_obligation(False, "startup_census", c["obs"]["error"])
            return
        calls, fs = set(c["obs"]["manager_calls"]), c["obs"]["fs_ops"]
        run.add_obligation(not (calls & SWEEPING) and "CreateTLSPassthroughHostsConfig" in calls, "startup_calls_no_sweep",
                           "main.go calls %s on the manager" % sorted(calls & SWEEPING | ({"CreateTLSPassthroughHostsConfig"} - calls)))
        run.add_obligation(fs == FS_OPS, "startup_fs_call_sites",
                           "file-removing/enumerating call sites changed: %s" % sorted(set(fs) ^ set(FS_OPS)))
        run.cov["startup_census"] = c["obs"]
        return
    run.add_obligation(False, "startup_census", "no startup case")


def run_cases(run, args, tag, trace=False):
    binary = C.go_build("c10")
    out = os.path.join(C.WORK, "cases", "c10_%s.jsonl" % tag)
    rc, log = C.run_harness(binary, args + ["-out", out], timeout=3000, env={"VERIF_REPO": C.REPO})
    if rc != 0:
        raise C.TieBroken("c10 harness failed rc=%d: %s" % (rc, log[-1500:]))
    return C.read_jsonl(out)


def check(run):
    n = 600 if run.tier == "quick" else 10000
    run.proof_obligations()
    cases = run_cases(run, ["-seed", str(run.seed), "-n", str(n), "-tier", run.tier], run.tier)
    cleanup = cleanup_variant(cases)
    run.cov["model_variant"] = "cleanup=%s (addOrUpdateTransportServer %s a stale passthrough pair)" % (cleanup, "removes" if cleanup else "keeps")
    startup_obligations(run, cases)
    ev = [c for c in cases if c["fam"] in EVALUATED]
    shard = 120
    parts = [ev[k:k + shard] for k in range(0, len(ev), shard)]
    from concurrent.futures import ThreadPoolExecutor
    with ThreadPoolExecutor(max_workers=6) as ex:      # coqc runs as a subprocess per shard
        results = list(ex.map(lambda kp: evaluate(run, kp[1], "%s_%d" % (run.tier, kp[0]), cleanup), enumerate(parts)))
    for part, res in zip(parts, results):
        judge(run, part, res)
    for c in [x for x in cases if has_error(x)]:
        judge(run, [c], [])
    for cls in ("witness-collide", "restart-del", "plain"):
        for c in cases:
            if c["fam"] == "hist" and c["class"] == cls:
                s = {"id": c["id"], "class": c["class"], "events": c["events"][:6],
                     "final_listing": {"confd": [[f["file"], f["stamp"]] for f in c["obs"][-1]["confd"]],
                                       "stream": [[f["file"], f["stamp"]] for f in c["obs"][-1]["stream"]],
                                       "hosts": c["obs"][-1]["hosts"]}}
                run.sample(s)
                break
    run.cov["rule"] = ("hist: histories of 5-18 Configurator operations (AddOrUpdate{Ingress,MergeableIngress,VirtualServer(+VSR),TransportServer(incl. TLS "
                       "passthrough)}, Delete*, UpdateVirtualServers/TransportServers, BatchDelete*, AddOrUpdateResources, UpdateConfig, UpdateEndpoints*) over 7-15 "
                       "resource identities with DNS-legal namespaces/names biased to '-' and '.', colliding Ingress pairs (classes collide*), the same "
                       "key used as Ingress+VS+TS, and a simulated restart at a random point (classes restart-*: cluster unchanged/updated/extended, "
                       "or with deletions while down) or at EVERY point of a base history (classes everypoint-*); 1/4 of the histories with the NGINX Plus "
                       "templates; observed after EVERY event: listings of conf.d and stream-conf.d with content stamp, parsed "
                       "tls-passthrough-hosts.conf, keys of the Configurator's maps; 2/5 of the adds of a known identity re-apply an EARLIER version byte for byte "
                       "(add -> delete -> re-add of identical content, change -> change back).  mgr: 6-19 direct calls of the LocalManager file methods "
                       "(Create/Delete Config, StreamConfig, Secret, AppProtectResourceFile; Create TLSPassthroughHostsConfig, MainConfig, DHParam) over 2-4 "
                       "names and 2-4 contents, the whole root listed with contents after every call.  names: the seven naming functions on arbitrary byte strings. "
                       "startup: syntactic census of main.go / manager.go.  A case is distinct by its full input; a history is nontrivial when some step has a non-empty listing.")
    from . import arbfiles
    arbfiles.check_files(run, 80 if run.tier == "quick" else 1500)
    run.cov["trusted_base"] = TRUSTED
    run.assumptions += [
        "hosts of simultaneously served TLS-passthrough TransportServers are distinct (guaranteed upstream by host arbitration, C02); the generator never shares a host between two TransportServers",
        "a cluster holds at most one object per kind/namespace/name",
        "filesystem failures and the atomicity of non-secret writes are not modelled",
    ]


def replay(run, path):
    path = os.path.abspath(path)
    d = json.load(open(path))
    if d.get("cases") and "histories" in d["cases"][0]:
        from . import arbfiles
        arbfiles.replay_files(run, path)      # a controller-level history of the arb harness
        return
    run.tier = "replay"          # verdict files of this run must not overwrite the replay file being read
    cases = run_cases(run, ["-replay", path], "replay")
    wit = run_cases(run, ["-seed", "1", "-n", "0"], "replay_wit")
    cleanup = cleanup_variant(wit)
    ev = [c for c in cases if c["fam"] in EVALUATED]
    for c in ev:
        print("replay case %d (%s/%s): implementation observed:" % (c["id"], c["fam"], c["class"]))
        if c["fam"] == "hist" and not has_error(c):
            for e, o in zip(c["events"], c["obs"]):
                print("  event %s" % json.dumps(e)[:300])
                print("    conf.d=%s stream-conf.d=%s hosts=%s state=%s" % (
                    [(f["file"], f["stamp"]) for f in o["confd"]], [(f["file"], f["stamp"]) for f in o["stream"]], o["hosts"],
                    json.dumps(o["state"])[:300]))
        else:
            print("  %s" % json.dumps(c["obs"])[:600])
    print("model (cleanup=%s) projections:" % cleanup)
    res = evaluate(run, ev, "replay", cleanup, trace=True)
    for r in res:
        print("replay case %d: model-agrees=%d spec=%d bits=%d first-S-failure-step=%d first-X-failure-step=%d" % (r[0], r[1], r[2], r[5], r[6], r[7]))
    judge(run, cases, res)
