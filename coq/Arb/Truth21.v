(* C05 truth proof, part 21: applied objects keep a success as their last report *)
From Coq Require Import List ZArith String Ascii Bool Lia.
From NIC Require Import Base.SMap Arb.Types Arb.Model Arb.Spec Arb.WinsProofs Arb.InvProofs Arb.OwnerProofs
     Arb.ListenerProofs Arb.ClassProofs Arb.ChangeProofs Arb.ReportProofs Arb.ComposeProofs Arb.Cases Arb.ShadowProofs Arb.ShadowAttrs.
From NIC Require Import Arb.Truth01 Arb.Truth02 Arb.Truth03 Arb.Truth04 Arb.Truth05 Arb.Truth06 Arb.Truth07 Arb.Truth08 Arb.Truth09 Arb.Truth10 Arb.Truth11 Arb.Truth12 Arb.Truth13 Arb.Truth14 Arb.Truth15 Arb.Truth16 Arb.Truth17 Arb.Truth18 Arb.Truth19 Arb.Truth20.
Import ListNotations.
Open Scope string_scope.
Open Scope Z_scope.

Section Step.
  Variables (c : cfg) (es : list event) (e : event).
  Hypothesis Hy' : hyps c (es ++ [e])%list.
  Hypothesis IH : inv c es.
  Let Hy := hyps_prefix c es e Hy'.
  Let S := run c es.
  Let S' := run c (es ++ [e])%list.
  Let L := last_reports c es.
  Let L' := last_reports c (es ++ [e])%list.
  Let rs := step_reports c es e.
  Let chg := chg_reports e (own_in_cluster (cluster (es ++ [e])%list)) (batch c es e).
  Let prb := prob_reports (probs c es e).

  Lemma applied_no_problem k r : Ap S' k -> ~ In (k, r) prb.
  Proof.
    intros HA Hin. destruct (prob_report_why c es e k r Hin) as [HP|[Hi Ho]].
    - exact (st_P1 c _ Hy' k HP HA).
    - destruct (st_named c _ Hy' k HA) as (u & Hw).
      pose proof (cluster_ok (es ++ [e])%list k e) as Hce. rewrite cluster_snoc, (cluster_own _ e k true Ho) in Hce. specialize (Hce eq_refl).
      exact (invalid_not_named _ k e u (objs_after_ok _) Hce Hi Hw).
  Qed.

  Lemma covered_ok k : (exists ch, In ch (batch c es e) /\ covers ch k) ->
    exists w, last_report k chg None = Some (ROk w).
  Proof.
    intros Hc. destruct (covered_last_ok e (own_in_cluster (cluster (es ++ [e])%list)) (batch c es e) k) as (w & Hw & _).
    - apply removals_first.
    - intros Hg ch ic Hch Hop. exact (gc_step_no_ing c es e (h_cm _ _ Hy') Hg ch ic Hch Hop).
    - intros ch vc x Hch Hop Hr Hx.
      pose proof (step_upd_current c es e (h_role _ _ Hy') ch Hch Hop) as Lr. rewrite Hr in Lr.
      exact (proj2 (proj2 (st_vsr c _ Hy' _ vc x Lr Hx))).
    - exact Hc.
    - exists w. exact Hw.
  Qed.

  Lemma rs_split k : last_report k rs None = match last_report k prb None with Some r => Some r | None => last_report k chg None end.
  Proof. unfold rs. rewrite step_reports_eq. apply last_report_app. Qed.

  Theorem step_I3 k : Ap S' k -> said_ok L' k.
  Proof.
    intros HA.
    assert (Hnp : last_report k prb None = None) by (apply last_report_none; intros r; apply applied_no_problem; exact HA).
    assert (Ers : last_report k rs None = last_report k chg None) by (rewrite rs_split, Hnp; reflexivity).
    destruct (last_report k chg None) as [r|] eqn:Elc.
    - destruct r as [w| |].
      + exists w. unfold L'. rewrite (L'_lookup c es e k). fold rs. rewrite Ers. reflexivity.
      + (* a rejection is the last word of the changes: impossible for something applied *)
        exfalso.
        assert (Hin : In (k, RRejected) chg) by (apply last_report_in in Elc; destruct Elc as [H|H]; [exact H|discriminate]).
        destruct (chg_report_kinds _ _ _ _ _ Hin) as [Hx|[_ Hdel]]; [discriminate|].
        assert (Hnc : forall ch, In ch (batch c es e) -> ~ covers ch k).
        { intros ch Hch Hcov. destruct (covered_ok k (ex_intro _ ch (conj Hch Hcov))) as (w & Hw). fold chg in Hw. congruence. }
        pose proof (step_del_old c es e k Hdel) as Hold.
        destruct (applied_not_covered c es e (h_cm _ _ Hy') (h_role _ _ Hy') (h_k3 _ _ Hy') k HA Hnc)
          as [(r & r' & _ & _ & _ & Hd)|[(M & ic & ic' & m & _ & LM & Ha & Hm & ->)|(V & vc & vc' & x & _ & LV & Ha & Hx & ->)]].
        * congruence.
        * assert (Hm0 : In m (ic_minions ic)) by (cbn [attrs] in Ha; injection Ha as _ _ Em _; rewrite Em; exact Hm).
          exact (Hold (proj2 (st_minion c es Hy M ic m LM Hm0))).
        * assert (Hx0 : In x (vc_vsrs vc)) by (cbn [attrs] in Ha; injection Ha as _ Ex; rewrite Ex; exact Hx).
          exact (Hold (proj1 (proj2 (st_vsr c es Hy V vc x LV Hx0)))).
      + exfalso. assert (Hin : In (k, RProblem is_error reason) chg) by (apply last_report_in in Elc; destruct Elc as [H|H]; [exact H|discriminate]).
        destruct (chg_report_kinds _ _ _ _ _ Hin) as [Hx|[Hx _]]; discriminate.
    - (* the step says nothing about k *)
      assert (Hnc : forall ch, In ch (batch c es e) -> ~ covers ch k).
      { intros ch Hch Hcov. destruct (covered_ok k (ex_intro _ ch (conj Hch Hcov))) as (w & Hw). fold chg in Hw. congruence. }
      assert (G : exists u, who (objs_after es) k u /\ who (objs_after (es ++ [e])%list) k u /\ Ap S k).
      { destruct (applied_not_covered c es e (h_cm _ _ Hy') (h_role _ _ Hy') (h_k3 _ _ Hy') k HA Hnc)
          as [(r & r' & L1 & L0 & Ha & _)|[(M & ic & ic' & m & L1 & L0 & Ha & Hm & ->)|(V & vc & vc' & x & L1 & L0 & Ha & Hx & ->)]].
        - exists (m_uid (res_meta r)). split; [exact (st_res_who c es Hy k r L0)|]. split.
          + rewrite (attrs_meta _ _ Ha). exact (st_res_who c _ Hy' k r' L1).
          + left. unfold S. rewrite L0. discriminate.
        - assert (Hm0 : In m (ic_minions ic)) by (cbn [attrs] in Ha; injection Ha as _ _ Em _; rewrite Em; exact Hm).
          exists (m_uid (i_meta (mc_ing m))). split; [exact (proj1 (st_minion c es Hy M ic m L0 Hm0))|]. split.
          + exact (proj1 (st_minion c _ Hy' M ic' m L1 Hm)).
          + right; left. exists M, ic, m. auto.
        - assert (Hx0 : In x (vc_vsrs vc)) by (cbn [attrs] in Ha; injection Ha as _ Ex; rewrite Ex; exact Hx).
          exists (m_uid (r_meta x)). split; [exact (proj1 (st_vsr c es Hy V vc x L0 Hx0))|]. split.
          + exact (proj1 (st_vsr c _ Hy' V vc' x L1 Hx)).
          + right; right. exists V, vc, x. auto. }
      destruct G as (u & W1 & W2 & HA0). destruct (inv_I3 _ _ IH k HA0) as (w & Lw). exists w.
      rewrite <- Lw. apply (keeps c es e IH k u); [|exact W1|exact W2]. fold rs. exact Ers.
  Qed.
End Step.
