(* Policies/ProofsCheck.v -- the decidable classification the check evaluates on the INPUTS of a case
   (Spec.scan_refs: "this scope has an unusable reference that no earlier reference of its kind
   shadows") implies the hypotheses of the main theorem, for the policy map of the VirtualServer
   itself.  So a case the driver classifies as "must fail, not shadowed" whose real outcome is not an
   error return contradicts a THEOREM about the model (the correspondence is then what broke). *)
From Coq Require Import List String Ascii Bool Arith.
From NIC Require Import Lex.Lexer Lex.Parser Policies.Model Policies.Spec Policies.Proofs.
Import ListNotations.
Open Scope string_scope.
Open Scope list_scope.

Definition pm_complete_for (cls : string) (cluster : list (string * cpolicy)) (pm : policy_map)
           (own : string) (refs : list polref) : Prop :=
  forall r p, In r refs -> in_map cls cluster own r = Some p -> assoc (ref_key own r) pm = Some p.

Lemma in_map_spec : forall cls cluster own r p,
  in_map cls cluster own r = Some p <->
  exists cp, assoc (ref_key own r) cluster = Some cp /\ class_ok cls cp = true /\ cp_valid cp = true /\ cp_pol cp = p.
Proof.
  intros. unfold in_map. destruct (assoc (ref_key own r) cluster) as [cp|].
  - destruct (class_ok cls cp) eqn:C, (cp_valid cp) eqn:V; cbn [andb]; split.
    + intros H. inversion H. exists cp. auto.
    + intros (cp' & A & _ & _ & P). inversion A; subst. reflexivity.
    + discriminate.
    + intros (cp' & A & _ & V' & _). inversion A; subst. congruence.
    + discriminate.
    + intros (cp' & A & C' & _ & _). inversion A; subst. congruence.
    + discriminate.
    + intros (cp' & A & C' & _ & _). inversion A; subst. congruence.
  - split; [discriminate | intros (cp & A & _); discriminate].
Qed.

Lemma get_policies_complete : forall cls cluster refs own, pm_complete_for cls cluster (get_policies cls cluster refs own) own refs.
Proof.
  intros cls cluster refs own. unfold pm_complete_for.
  induction refs as [|r0 refs IH]; intros r p I M; [contradiction|].
  cbn [get_policies flat_map]. fold (get_policies cls cluster refs own). rewrite assoc_app.
  destruct (String.eqb (ref_key own r) (ref_key own r0)) eqn:E.
  - apply String.eqb_eq in E.
    assert (M0 : in_map cls cluster own r0 = Some p) by (unfold in_map in *; rewrite <- E; exact M).
    unfold in_map in M0. destruct (assoc (ref_key own r0) cluster) as [cp|]; [|discriminate].
    destruct (class_ok cls cp && cp_valid cp); [|discriminate]. inversion M0; subst.
    cbn [assoc]. rewrite E, String.eqb_refl. reflexivity.
  - assert (N : assoc (ref_key own r)
                  (match assoc (ref_key own r0) cluster with
                   | Some cp => if class_ok cls cp && cp_valid cp then [(ref_key own r0, cp_pol cp)] else []
                   | None => []
                   end) = None).
    { destruct (assoc (ref_key own r0) cluster) as [cp|]; [|reflexivity].
      destruct (class_ok cls cp && cp_valid cp); [|reflexivity]. cbn [assoc]. rewrite E. reflexivity. }
    rewrite N. destruct I as [I|I]; [subst r0; rewrite String.eqb_refl in E; discriminate|].
    apply IH; assumption.
Qed.

Lemma complete_app_l : forall cls cluster a b own refs,
  pm_complete_for cls cluster a own refs -> pm_complete_for cls cluster (a ++ b) own refs.
Proof.
  intros cls cluster a b own refs H r p I M. rewrite assoc_app. rewrite (H r p I M). reflexivity.
Qed.

Lemma complete_app_r : forall cls cluster a b own refs,
  pm_sound cls cluster a -> pm_complete_for cls cluster b own refs -> pm_complete_for cls cluster (a ++ b) own refs.
Proof.
  intros cls cluster a b own refs S H r p I M. rewrite assoc_app.
  destruct (assoc (ref_key own r) a) as [q|] eqn:E; [|apply H; assumption].
  destruct (S _ _ E) as (cp & A & _ & _ & P). apply in_map_spec in M. destruct M as (cp' & A' & _ & _ & P').
  rewrite A in A'. inversion A'; subst. reflexivity.
Qed.

Lemma complete_flat_map : forall A cls cluster (f : A -> policy_map) l x own refs,
  (forall y, pm_sound cls cluster (f y)) -> In x l ->
  pm_complete_for cls cluster (f x) own refs -> pm_complete_for cls cluster (flat_map f l) own refs.
Proof.
  induction l as [|y l IH]; intros x own refs S I H; [contradiction|]. cbn [flat_map].
  destruct I as [I|I].
  - subst y. apply complete_app_l. exact H.
  - apply complete_app_r; [apply S | eapply IH; eauto].
Qed.

Lemma inherited_refs_origin : forall vsns routes key cur,
  inherited_refs vsns routes key cur = cur \/ exists r, In r routes /\ inherited_refs vsns routes key cur = r_pols r.
Proof.
  induction routes as [|r routes IH]; intros key cur; cbn [inherited_refs]; [left; reflexivity|].
  match goal with |- context [inherited_refs vsns routes key ?c] => destruct (IH key c) as [H|(r' & I & H)] end.
  - rewrite H. match goal with |- context [if ?b then _ else _] => destruct b end.
    + right. exists r. split; [left; reflexivity | reflexivity].
    + left. reflexivity.
  - right. exists r'. split; [right; exact I | exact H].
Qed.

Lemma complete_nil : forall cls cluster pm own, pm_complete_for cls cluster pm own [].
Proof. intros cls cluster pm own r p []. Qed.

(* the map createVirtualServerEx builds resolves every reference of every scope of the VirtualServer
   that getPolicies lets through *)
Theorem vs_policy_map_complete : forall cls cluster v id ctx own refs,
  In (id, ctx, own, refs) (vs_scopes v) ->
  pm_complete_for cls cluster (vs_policy_map cls cluster v) own refs.
Proof.
  intros cls cluster v id ctx own refs I. unfold vs_scopes in I. unfold vs_policy_map.
  assert (SR : forall r, pm_sound cls cluster (get_policies cls cluster (r_pols r) (vs_ns v)))
    by (intros; apply get_policies_sound).
  destruct I as [I|I].
  - inversion I; subst. apply complete_app_l. apply get_policies_complete.
  - apply complete_app_r; [apply get_policies_sound|].
    apply in_app_or in I. destruct I as [I|I].
    + unfold own_route_scopes in I. apply in_flat_map in I. destruct I as (r & Ir & I).
      destruct (is_empty (r_vsr r)); [|contradiction]. destruct I as [I|[]]. inversion I; subst.
      apply complete_app_l. eapply complete_flat_map; [exact SR | exact Ir | apply get_policies_complete].
    + unfold sub_scopes in I. apply in_flat_map in I. destruct I as (x & Ix & I).
      apply in_map_iff in I. destruct I as (s & Es & Is).
      destruct (s_pols s) as [|r0 rs0] eqn:P.
      * inversion Es; subst.
        destruct (inherited_refs_origin (vs_ns v) (vs_routes v) (nskey (v_ns x) (v_name x)) []) as [H|(r & Ir & H)];
          rewrite H; [apply complete_nil|].
        apply complete_app_l. eapply complete_flat_map; [exact SR | exact Ir | apply get_policies_complete].
      * inversion Es; subst.
        apply complete_app_r; [apply pm_sound_flat_map; exact SR|].
        eapply complete_flat_map with (x := x);
          [intros; apply pm_sound_flat_map; intros; apply get_policies_sound | exact Ix |].
        eapply complete_flat_map with (x := s); [intros; apply get_policies_sound | exact Is |].
        rewrite P. apply get_policies_complete.
Qed.

(* what the scan finds *)
Lemma scan_refs_sound : forall cls cluster d ctx own refs seen,
  fst (scan_refs cls cluster d ctx own seen refs) = true ->
  exists pre r post, refs = pre ++ r :: post /\
    policy_unusable cls cluster d ctx own r = true /\
    (in_map cls cluster own r = None \/
     exists p, in_map cls cluster own r = Some p /\ existsb (kind_eqb (pkind p)) seen = false /\
               forall r' p', In r' pre -> in_map cls cluster own r' = Some p' -> pkind p' <> pkind p).
Proof.
  induction refs as [|r refs IH]; intros seen H; cbn [scan_refs] in H; [discriminate|].
  destruct (in_map cls cluster own r) as [p|] eqn:M.
  - destruct (scan_refs cls cluster d ctx own (pkind p :: seen) refs) as [u ks] eqn:R. cbn [fst] in H.
    destruct (deps_bad p (ref_ns own r) d ctx && negb (existsb (kind_eqb (pkind p)) seen)) eqn:B.
    + exists [], r, refs. split; [reflexivity|]. apply andb_true_iff in B. destruct B as [B1 B2].
      apply in_map_spec in M. destruct M as (cp & A & C & V & P). subst p. split.
      * unfold policy_unusable. rewrite A, C, V, B1. reflexivity.
      * right. exists (cp_pol cp). split; [apply in_map_spec; exists cp; auto|]. split.
        -- apply negb_true_iff in B2. exact B2.
        -- intros r' p' [].
    + rewrite orb_false_r in H. subst u.
      specialize (IH (pkind p :: seen)). rewrite R in IH. destruct (IH eq_refl) as (pre & r1 & post & E & U & W).
      exists (r :: pre), r1, post. split; [cbn; rewrite E; reflexivity|]. split; [exact U|].
      destruct W as [W|(p1 & M1 & S1 & F1)]; [left; exact W|]. right. exists p1. split; [exact M1|].
      cbn [existsb] in S1. apply orb_false_iff in S1. destruct S1 as [S0 S1]. split; [exact S1|].
      intros r' p' [I|I] M'.
      * subst r'. rewrite M in M'. inversion M'; subst p'. intros Q. rewrite Q in S0.
        destruct (pkind p1); discriminate.
      * eapply F1; eauto.
  - exists [], r, refs. split; [reflexivity|]. split.
    + unfold policy_unusable. unfold in_map in M. destruct (assoc (ref_key own r) cluster) as [cp|]; [|reflexivity].
      destruct (class_ok cls cp), (cp_valid cp); cbn in *; try reflexivity. discriminate.
    + left. exact M.
Qed.

(* the classification of the check implies the error return of the model, for every scope of every
   VirtualServer, in every state of the OIDC slot that does not already hold one of the scope's keys *)
Theorem unshadowed_scan_implies_error_return : forall cls cluster v d id ctx own refs slot,
  In (id, ctx, own, refs) (vs_scopes v) ->
  (forall r, In r refs -> slot <> Some (ref_key own r)) ->
  fst (scan_refs cls cluster d ctx own [] refs) = true ->
  generate_policies refs (vs_policy_map cls cluster v) d (mkScope ctx own slot) = ErrorReturn.
Proof.
  intros cls cluster v d id ctx own refs slot I SL H.
  destruct (scan_refs_sound _ _ _ _ _ _ _ H) as (pre & r & post & E & U & W). subst refs.
  pose proof (vs_policy_map_complete cls cluster v _ _ _ _ I) as CP.
  pose proof (vs_policy_map_sound cls cluster v) as SD.
  apply (scope_fails_closed_from_cluster cls cluster _ d (mkScope ctx own slot) pre r post SD).
  - cbn. apply SL. apply in_or_app. right. left. reflexivity.
  - exact U.
  - cbn [sc_owner_ns]. intros (r' & p' & p & Ir & A' & A & K).
    destruct W as [W|(p0 & M0 & _ & F)].
    + destruct (SD _ _ A) as (cp & Ac & C & V & _). unfold in_map in W. rewrite Ac, C, V in W. discriminate.
    + assert (A0 : assoc (ref_key own r) (vs_policy_map cls cluster v) = Some p0).
      { apply CP; [apply in_or_app; right; left; reflexivity | exact M0]. }
      rewrite A in A0. inversion A0; subst p0.
      destruct (SD _ _ A') as (cp' & Ac' & C' & V' & P').
      apply (F r' p' Ir); [|exact K].
      apply in_map_spec. exists cp'. auto.
Qed.
