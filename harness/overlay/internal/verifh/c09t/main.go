//go:build verif

// Translator for C09 (tie T): lists every `range` statement over a map-typed operand in
// internal/configs, internal/configs/version1 and internal/configs/version2 of the repository it is
// pointed at, together with a purely syntactic classification of the loop body, and every use of
// time.Now / math/rand / go statements / select in those packages.  It writes a Gallina file
// (coq/gen/MapRanges.v).  The translator is deliberately dumb: it transcribes, it does not decide.
// The decision (is this site covered by a theorem, does the classification agree with the
// hand-maintained table) is taken inside Rocq by Determ/ProofsTable.v.
//
// Type information comes from the standard library only: go/parser + go/types, with imports
// resolved from the export data `go list -export -deps` reports (the build cache), so nothing is
// added to /repo's module graph.
package main

import (
	"bytes"
	"encoding/json"
	"flag"
	"fmt"
	"go/ast"
	"go/build"
	"go/importer"
	"go/parser"
	"go/printer"
	"go/token"
	"go/types"
	"io"
	"os"
	"os/exec"
	"path/filepath"
	"sort"
	"strings"
)

var pkgs = []string{"internal/configs", "internal/configs/version1", "internal/configs/version2", "internal/k8s"}

// fileFilter: of a package that does much more than build the generator's input, only these files are inventoried
// (the Configuration that arbitrates hosts and hands the resources, in order, to the Configurator)
var fileFilter = map[string]map[string]bool{"internal/k8s": {"configuration.go": true}}

type site struct {
	Pkg, File, Func string
	Index, Line     int
	Operand         string
	KeyT, ValT      string
	Class           string // CMapWrite | CAppendSorted | CAppendUnsorted | CBuilder | CNoEffect | COther
	Targets         []string
	Sorts           []string // the sort.* calls (whole call, comparator included) that order the targets after the loop
	Why             string
}

type nduse struct {
	Kind, Pkg, File, Func string
	Line                  int
}

func main() {
	repo := flag.String("repo", "/repo", "repository root")
	out := flag.String("out", "", "output .v file")
	jsonOut := flag.String("json", "", "optional JSON copy of the inventory")
	allFiles := flag.Bool("all-files", false, "ignore the file filter (exploration)")
	flag.Parse()

	exports, modpath, err := goList(*repo)
	if err != nil {
		fmt.Fprintf(os.Stderr, "c09t: go list failed: %v\n", err)
		os.Exit(2)
	}
	fset := token.NewFileSet()
	imp := importer.ForCompiler(fset, "gc", func(path string) (io.ReadCloser, error) {
		f, ok := exports[path]
		if !ok || f == "" {
			return nil, fmt.Errorf("no export data for %s", path)
		}
		return os.Open(f)
	})

	var sites []site
	var nds []nduse
	for _, rel := range pkgs {
		dir := filepath.Join(*repo, rel)
		bp, err := build.Default.ImportDir(dir, 0)
		if err != nil {
			fmt.Fprintf(os.Stderr, "c09t: %s: %v\n", rel, err)
			os.Exit(2)
		}
		var files []*ast.File
		names := append([]string{}, bp.GoFiles...)
		sort.Strings(names)
		for _, n := range names {
			f, err := parser.ParseFile(fset, filepath.Join(dir, n), nil, 0)
			if err != nil {
				fmt.Fprintf(os.Stderr, "c09t: parse %s: %v\n", n, err)
				os.Exit(2)
			}
			files = append(files, f)
		}
		info := &types.Info{Types: map[ast.Expr]types.TypeAndValue{}, Uses: map[*ast.Ident]types.Object{}, Defs: map[*ast.Ident]types.Object{}}
		conf := types.Config{Importer: imp, Error: func(err error) { fmt.Fprintf(os.Stderr, "c09t: type error: %v\n", err) }}
		if _, err := conf.Check(modpath+"/"+rel, fset, files, info); err != nil {
			fmt.Fprintf(os.Stderr, "c09t: type check of %s failed: %v\n", rel, err)
			os.Exit(2)
		}
		for i, f := range files {
			if ff, ok := fileFilter[rel]; ok && !ff[names[i]] && !*allFiles {
				continue
			}
			s, n := scanFile(fset, info, rel, names[i], f)
			sites = append(sites, s...)
			nds = append(nds, n...)
		}
	}
	// order-dependent post-processing, found syntactically (no type information needed), also in the
	// controller package that hands the endpoint sets to the generator
	for _, rel := range pkgs {
		dir := filepath.Join(*repo, rel)
		bp, err := build.Default.ImportDir(dir, 0)
		if err != nil {
			fmt.Fprintf(os.Stderr, "c09t: %s: %v\n", rel, err)
			os.Exit(2)
		}
		names := append([]string{}, bp.GoFiles...)
		sort.Strings(names)
		for _, n := range names {
			f, err := parser.ParseFile(fset, filepath.Join(dir, n), nil, 0)
			if err != nil {
				fmt.Fprintf(os.Stderr, "c09t: parse %s: %v\n", n, err)
				os.Exit(2)
			}
			nds = append(nds, scanCompact(fset, rel, n, f)...)
		}
	}
	var b bytes.Buffer
	emit(&b, sites, nds)
	if *out == "" {
		os.Stdout.Write(b.Bytes())
	} else {
		old, _ := os.ReadFile(*out)
		if !bytes.Equal(old, b.Bytes()) { // keep the mtime when nothing changed (incremental make)
			if err := os.WriteFile(*out, b.Bytes(), 0o644); err != nil {
				fmt.Fprintln(os.Stderr, err)
				os.Exit(2)
			}
		}
	}
	if *jsonOut != "" {
		j, _ := json.MarshalIndent(map[string]any{"sites": sites, "nondet": nds}, "", " ")
		os.WriteFile(*jsonOut, j, 0o644)
	}
}

func goList(repo string) (map[string]string, string, error) {
	args := []string{"list", "-export", "-deps", "-json=ImportPath,Export"}
	for _, p := range pkgs {
		args = append(args, "./"+p)
	}
	cmd := exec.Command("go", args...)
	cmd.Dir = repo
	var stderr bytes.Buffer
	cmd.Stderr = &stderr
	o, err := cmd.Output()
	if err != nil {
		return nil, "", fmt.Errorf("%v: %s", err, stderr.String())
	}
	m := map[string]string{}
	dec := json.NewDecoder(bytes.NewReader(o))
	for dec.More() {
		var p struct{ ImportPath, Export string }
		if err := dec.Decode(&p); err != nil {
			return nil, "", err
		}
		m[p.ImportPath] = p.Export
	}
	cmd = exec.Command("go", "list", "-m")
	cmd.Dir = repo
	o, err = cmd.Output()
	if err != nil {
		return nil, "", err
	}
	return m, strings.TrimSpace(strings.Split(string(o), "\n")[0]), nil
}

func funcName(fd *ast.FuncDecl) string {
	if fd.Recv != nil && len(fd.Recv.List) > 0 {
		t := fd.Recv.List[0].Type
		if s, ok := t.(*ast.StarExpr); ok {
			t = s.X
		}
		if ix, ok := t.(*ast.IndexExpr); ok {
			t = ix.X
		}
		if id, ok := t.(*ast.Ident); ok {
			return id.Name + "." + fd.Name.Name
		}
	}
	return fd.Name.Name
}

func scanFile(fset *token.FileSet, info *types.Info, pkg, fname string, f *ast.File) ([]site, []nduse) {
	var sites []site
	var nds []nduse
	for _, imp := range f.Imports {
		p := strings.Trim(imp.Path.Value, "\"")
		if p == "math/rand" || p == "math/rand/v2" || p == "crypto/rand" || p == "hash/maphash" {
			nds = append(nds, nduse{Kind: "import:" + p, Pkg: pkg, File: fname, Func: "", Line: fset.Position(imp.Pos()).Line})
		}
	}
	// per-process / per-run values: clocks, random numbers, randomly seeded hashes, process identity
	perProcess := func(p, sel string) string {
		switch {
		case p == "time" && (sel == "Now" || sel == "Since" || sel == "Until"):
			return "time." + sel
		case p == "math/rand" || p == "math/rand/v2" || p == "crypto/rand" || p == "hash/maphash":
			return p + "." + sel
		case p == "os" && (sel == "Getpid" || sel == "Getppid" || sel == "Hostname"):
			return "os." + sel
		}
		return ""
	}
	scanSelectors := func(name string, node ast.Node) {
		ast.Inspect(node, func(n ast.Node) bool {
			if _, ok := n.(*ast.FuncLit); ok {
				return false // function literals are scanned as functions
			}
			if x, ok := n.(*ast.SelectorExpr); ok {
				if id, ok := x.X.(*ast.Ident); ok {
					if pn, ok := info.Uses[id].(*types.PkgName); ok {
						if k := perProcess(pn.Imported().Path(), x.Sel.Name); k != "" {
							nds = append(nds, nduse{Kind: k, Pkg: pkg, File: fname, Func: name, Line: fset.Position(x.Pos()).Line})
						}
					}
				}
			}
			return true
		})
	}
	// in-place reordering / compaction of a slice that belongs to the caller (rooted at a parameter):
	// the function writes into its input
	inplaceFns := map[string]map[string]bool{
		"slices": {"Delete": true, "DeleteFunc": true, "Compact": true, "CompactFunc": true, "Reverse": true, "Sort": true, "SortFunc": true,
			"SortStableFunc": true, "Insert": true, "Replace": true},
		"sort": {"Slice": true, "SliceStable": true, "Strings": true, "Ints": true, "Float64s": true, "Sort": true, "Stable": true},
	}
	rootIdent := func(e ast.Expr) *ast.Ident {
		for {
			switch x := e.(type) {
			case *ast.Ident:
				return x
			case *ast.SelectorExpr:
				e = x.X
			case *ast.IndexExpr:
				e = x.X
			case *ast.SliceExpr:
				e = x.X
			case *ast.StarExpr:
				e = x.X
			case *ast.ParenExpr:
				e = x.X
			case *ast.CallExpr: // conversions byX(s)
				if len(x.Args) != 1 {
					return nil
				}
				e = x.Args[0]
			default:
				return nil
			}
		}
	}
	var params map[types.Object]bool
	scanFunc := func(name string, body *ast.BlockStmt) {
		idx := 0
		ast.Inspect(body, func(n ast.Node) bool {
			switch x := n.(type) {
			case *ast.CallExpr:
				if sel, ok := x.Fun.(*ast.SelectorExpr); ok && len(x.Args) > 0 {
					if id, ok := sel.X.(*ast.Ident); ok {
						if pn, ok := info.Uses[id].(*types.PkgName); ok && inplaceFns[pn.Imported().Path()][sel.Sel.Name] {
							if r := rootIdent(x.Args[0]); r != nil && params[info.Uses[r]] {
								nds = append(nds, nduse{Kind: "inplace:" + pn.Imported().Path() + "." + sel.Sel.Name + "(" + types.ExprString(x.Args[0]) + ")",
									Pkg: pkg, File: fname, Func: name, Line: fset.Position(x.Pos()).Line})
							}
						}
					}
				}
			case *ast.RangeStmt:
				tv, ok := info.Types[x.X]
				if !ok {
					return true
				}
				mt, ok := tv.Type.Underlying().(*types.Map)
				if !ok {
					return true
				}
				s := site{Pkg: pkg, File: fname, Func: name, Index: idx, Line: fset.Position(x.Pos()).Line,
					Operand: types.ExprString(x.X), KeyT: typeStr(mt.Key()), ValT: typeStr(mt.Elem())}
				idx++
				classify(fset, info, body, x, &s)
				sites = append(sites, s)
			case *ast.GoStmt:
				nds = append(nds, nduse{Kind: "go", Pkg: pkg, File: fname, Func: name, Line: fset.Position(x.Pos()).Line})
			case *ast.SelectStmt:
				nds = append(nds, nduse{Kind: "select", Pkg: pkg, File: fname, Func: name, Line: fset.Position(x.Pos()).Line})
			case *ast.SelectorExpr:
				if id, ok := x.X.(*ast.Ident); ok {
					if pn, ok := info.Uses[id].(*types.PkgName); ok {
						if k := perProcess(pn.Imported().Path(), x.Sel.Name); k != "" {
							nds = append(nds, nduse{Kind: k, Pkg: pkg, File: fname, Func: name, Line: fset.Position(x.Pos()).Line})
						}
					}
				}
			}
			return true
		})
	}
	for _, d := range f.Decls {
		switch x := d.(type) {
		case *ast.FuncDecl:
			if x.Body != nil {
				params = map[types.Object]bool{}
				fields := []*ast.Field{}
				if x.Type.Params != nil {
					fields = append(fields, x.Type.Params.List...)
				}
				for _, fl := range fields {
					for _, nm := range fl.Names {
						if o := info.Defs[nm]; o != nil {
							params[o] = true
						}
					}
				}
				scanFunc(funcName(x), x.Body)
				params = nil
			}
		case *ast.GenDecl:
			// function literals in package-level variable initialisers (template FuncMaps)
			for _, sp := range x.Specs {
				vs, ok := sp.(*ast.ValueSpec)
				if !ok {
					continue
				}
				for i, v := range vs.Values {
					nm := "var"
					if i < len(vs.Names) {
						nm = "var:" + vs.Names[i].Name
					}
					scanSelectors(nm, v) // package-level initialisers run once per process
					ast.Inspect(v, func(n ast.Node) bool {
						if fl, ok := n.(*ast.FuncLit); ok {
							scanFunc(nm, fl.Body)
							return false
						}
						return true
					})
				}
			}
		}
	}
	return sites, nds
}

// scanCompact: slices.Compact / CompactFunc only removes ADJACENT duplicates; unless the same expression
// was sorted earlier in the function (sort.* / slices.Sort*), the result depends on the order of arrival.
func scanCompact(fset *token.FileSet, pkg, fname string, f *ast.File) []nduse {
	var out []nduse
	pkgCall := func(n ast.Node) (string, string, *ast.CallExpr) {
		call, ok := n.(*ast.CallExpr)
		if !ok || len(call.Args) == 0 {
			return "", "", nil
		}
		sel, ok := call.Fun.(*ast.SelectorExpr)
		if !ok {
			return "", "", nil
		}
		id, ok := sel.X.(*ast.Ident)
		if !ok {
			return "", "", nil
		}
		return id.Name, sel.Sel.Name, call
	}
	for _, d := range f.Decls {
		fd, ok := d.(*ast.FuncDecl)
		if !ok || fd.Body == nil {
			continue
		}
		sortedAt := map[string]token.Pos{}
		ast.Inspect(fd.Body, func(n ast.Node) bool {
			p, fn, call := pkgCall(n)
			if call == nil {
				return true
			}
			if (p == "sort" && !strings.HasPrefix(fn, "Search") && !strings.HasSuffix(fn, "Sorted")) || (p == "slices" && strings.HasPrefix(fn, "Sort")) {
				a0 := call.Args[0]
				if cv, ok := a0.(*ast.CallExpr); ok && len(cv.Args) == 1 {
					a0 = cv.Args[0]
				}
				k := types.ExprString(a0)
				if _, ok := sortedAt[k]; !ok {
					sortedAt[k] = call.Pos()
				}
			}
			return true
		})
		ast.Inspect(fd.Body, func(n ast.Node) bool {
			p, fn, call := pkgCall(n)
			if call == nil || p != "slices" || (fn != "Compact" && fn != "CompactFunc") {
				return true
			}
			k := types.ExprString(call.Args[0])
			if pos, ok := sortedAt[k]; !ok || pos > call.Pos() {
				out = append(out, nduse{Kind: "compact-unsorted:slices." + fn + "(" + k + ")", Pkg: pkg, File: fname, Func: funcName(fd), Line: fset.Position(call.Pos()).Line})
			}
			return true
		})
	}
	return out
}

func typeStr(t types.Type) string {
	return types.TypeString(t, func(p *types.Package) string { return p.Name() })
}

// ---- syntactic classification of a loop body ----

const (
	rkNone = iota
	rkMapWrite
	rkAppendSorted
	rkAppendUnsorted
	rkBuilder
	rkOther
)

var rkName = []string{"CNoEffect", "CMapWrite", "CAppendSorted", "CAppendUnsorted", "CBuilder", "COther"}

type clsState struct {
	info    *types.Info
	fnBody  *ast.BlockStmt
	rng     *ast.RangeStmt
	locals  map[types.Object]bool
	bodyLoc map[types.Object]bool
	rank    int
	targets map[string]bool
	sorts   map[string]bool
	fset    *token.FileSet
	why     []string
}

func (c *clsState) bump(r int, why string) {
	if r > c.rank {
		c.rank = r
	}
	if why != "" && len(c.why) < 6 {
		c.why = append(c.why, why)
	}
}

func classify(fset *token.FileSet, info *types.Info, fnBody *ast.BlockStmt, rng *ast.RangeStmt, s *site) {
	c := &clsState{fset: fset, sorts: map[string]bool{}, info: info, fnBody: fnBody, rng: rng, locals: map[types.Object]bool{}, bodyLoc: map[types.Object]bool{}, targets: map[string]bool{}}
	// objects declared by the range clause or inside the body are loop-local
	for _, e := range []ast.Expr{rng.Key, rng.Value} {
		if id, ok := e.(*ast.Ident); ok && rng.Tok == token.DEFINE {
			if o := info.Defs[id]; o != nil {
				c.locals[o] = true
			}
		}
	}
	if rng.Tok == token.ASSIGN {
		c.bump(rkOther, "range assigns to outer variables")
	}
	ast.Inspect(rng.Body, func(n ast.Node) bool {
		if id, ok := n.(*ast.Ident); ok {
			if o := info.Defs[id]; o != nil {
				c.locals[o] = true
				c.bodyLoc[o] = true
			}
		}
		return true
	})
	c.stmts(rng.Body.List)
	s.Class = rkName[c.rank]
	for t := range c.targets {
		s.Targets = append(s.Targets, t)
	}
	sort.Strings(s.Targets)
	for t := range c.sorts {
		s.Sorts = append(s.Sorts, t)
	}
	sort.Strings(s.Sorts)
	s.Why = strings.Join(c.why, "; ")
}

func (c *clsState) isLocalRoot(e ast.Expr) bool {
	for {
		switch x := e.(type) {
		case *ast.Ident:
			if x.Name == "_" {
				return true
			}
			o := c.info.Uses[x]
			if o == nil {
				o = c.info.Defs[x]
			}
			return o != nil && c.locals[o]
		case *ast.SelectorExpr:
			// a field of a loop-local *value* is local; through a pointer it may alias: not local
			if tv, ok := c.info.Types[x.X]; ok {
				if _, isPtr := tv.Type.Underlying().(*types.Pointer); isPtr {
					return false
				}
			}
			e = x.X
		case *ast.IndexExpr:
			if tv, ok := c.info.Types[x.X]; ok {
				switch tv.Type.Underlying().(type) {
				case *types.Array:
				default:
					return false // slice / map element of a local may alias outer storage
				}
			}
			e = x.X
		case *ast.ParenExpr:
			e = x.X
		default:
			return false
		}
	}
}

func (c *clsState) stmts(l []ast.Stmt) {
	for _, s := range l {
		c.stmt(s)
	}
}

func (c *clsState) stmt(s ast.Stmt) {
	switch x := s.(type) {
	case nil:
	case *ast.BlockStmt:
		c.stmts(x.List)
	case *ast.IfStmt:
		c.stmt(x.Init)
		c.expr(x.Cond)
		c.stmt(x.Body)
		c.stmt(x.Else)
	case *ast.ForStmt:
		c.stmt(x.Init)
		c.expr(x.Cond)
		c.stmt(x.Post)
		c.stmt(x.Body)
	case *ast.RangeStmt:
		c.expr(x.X)
		c.stmt(x.Body)
	case *ast.SwitchStmt:
		c.stmt(x.Init)
		c.expr(x.Tag)
		c.stmt(x.Body)
	case *ast.TypeSwitchStmt:
		c.stmt(x.Init)
		c.stmt(x.Assign)
		c.stmt(x.Body)
	case *ast.CaseClause:
		for _, e := range x.List {
			c.expr(e)
		}
		c.stmts(x.Body)
	case *ast.DeclStmt:
		if gd, ok := x.Decl.(*ast.GenDecl); ok {
			for _, sp := range gd.Specs {
				if vs, ok := sp.(*ast.ValueSpec); ok {
					for _, v := range vs.Values {
						c.expr(v)
					}
				}
			}
		}
	case *ast.EmptyStmt:
	case *ast.LabeledStmt:
		c.stmt(x.Stmt)
	case *ast.BranchStmt:
		if x.Tok == token.CONTINUE {
			return
		}
		// a break that leaves the map range makes the set of visited entries order dependent
		c.bump(rkOther, x.Tok.String())
	case *ast.ReturnStmt:
		c.bump(rkOther, "return inside the loop")
		for _, e := range x.Results {
			c.expr(e)
		}
	case *ast.IncDecStmt:
		if !c.isLocalRoot(x.X) {
			c.bump(rkOther, "inc/dec of "+types.ExprString(x.X))
		}
	case *ast.ExprStmt:
		c.callStmt(x.X)
	case *ast.AssignStmt:
		c.assign(x)
	default:
		c.bump(rkOther, fmt.Sprintf("%T", s))
	}
}

// expr looks for calls hidden in expressions: a call may have side effects the
// syntactic classification cannot see; calls to functions of this module and of fmt/strings/
// strconv/sort etc. that only compute values are accepted, method calls on builders are flagged.
func (c *clsState) expr(e ast.Expr) {
	if e == nil {
		return
	}
	ast.Inspect(e, func(n ast.Node) bool {
		if call, ok := n.(*ast.CallExpr); ok {
			if c.isBuilderCall(call) {
				c.bump(rkBuilder, "builder write "+types.ExprString(call.Fun))
			}
		}
		if _, ok := n.(*ast.FuncLit); ok {
			return false
		}
		return true
	})
}

func (c *clsState) isBuilderCall(call *ast.CallExpr) bool {
	sel, ok := call.Fun.(*ast.SelectorExpr)
	if !ok {
		return false
	}
	if id, ok := sel.X.(*ast.Ident); ok {
		if pn, ok := c.info.Uses[id].(*types.PkgName); ok {
			p := pn.Imported().Path()
			if p == "fmt" && strings.HasPrefix(sel.Sel.Name, "Fprint") {
				return true
			}
			if p == "io" && sel.Sel.Name == "WriteString" {
				return true
			}
			return false
		}
	}
	if tv, ok := c.info.Types[sel.X]; ok {
		ts := tv.Type.String()
		if strings.HasSuffix(ts, "strings.Builder") || strings.HasSuffix(ts, "bytes.Buffer") {
			if strings.HasPrefix(sel.Sel.Name, "Write") {
				return true
			}
		}
	}
	return false
}

func (c *clsState) callStmt(e ast.Expr) {
	call, ok := e.(*ast.CallExpr)
	if !ok {
		c.expr(e)
		return
	}
	for _, a := range call.Args {
		c.expr(a)
	}
	if id, ok := call.Fun.(*ast.Ident); ok {
		if _, isBuiltin := c.info.Uses[id].(*types.Builtin); isBuiltin {
			switch id.Name {
			case "delete":
				if !c.isLocalRoot(call.Args[0]) {
					c.bump(rkMapWrite, "")
					c.targets[types.ExprString(call.Args[0])] = true
				}
				return
			case "panic":
				c.bump(rkOther, "panic inside the loop")
				return
			}
		}
	}
	if c.isBuilderCall(call) {
		c.bump(rkBuilder, "builder write "+types.ExprString(call.Fun))
		return
	}
	// a method call on a receiver that is declared inside the loop body (a fresh hash, a fresh
	// buffer) only changes per-iteration state
	if sel, ok := call.Fun.(*ast.SelectorExpr); ok {
		if id, ok := sel.X.(*ast.Ident); ok {
			if o := c.info.Uses[id]; o != nil && c.bodyLoc[o] {
				if _, isPkg := o.(*types.PkgName); !isPkg {
					return
				}
			}
		}
	}
	// any other call executed for its effect
	c.bump(rkOther, "call for effect: "+types.ExprString(call.Fun))
}

func (c *clsState) assign(a *ast.AssignStmt) {
	for _, r := range a.Rhs {
		c.expr(r)
	}
	for i, l := range a.Lhs {
		if a.Tok == token.DEFINE {
			// may re-assign an outer variable only if it was declared outside: check
			if id, ok := l.(*ast.Ident); ok {
				if c.info.Defs[id] != nil || id.Name == "_" {
					continue
				}
			}
		}
		if c.isLocalRoot(l) {
			continue
		}
		// m[k] = v / m[k] op= v where m is a map
		if ix, ok := l.(*ast.IndexExpr); ok {
			if tv, ok := c.info.Types[ix.X]; ok {
				if _, isMap := tv.Type.Underlying().(*types.Map); isMap {
					if a.Tok == token.ASSIGN {
						c.bump(rkMapWrite, "")
						c.targets[types.ExprString(ix.X)] = true
						continue
					}
					c.bump(rkOther, "compound assignment into map "+types.ExprString(ix.X))
					continue
				}
			}
		}
		// x = append(x, ...)
		if a.Tok == token.ASSIGN && len(a.Lhs) == len(a.Rhs) {
			if call, ok := a.Rhs[i].(*ast.CallExpr); ok {
				if id, ok := call.Fun.(*ast.Ident); ok && id.Name == "append" {
					if _, isBuiltin := c.info.Uses[id].(*types.Builtin); isBuiltin && len(call.Args) > 0 &&
						types.ExprString(call.Args[0]) == types.ExprString(l) {
						t := types.ExprString(l)
						c.targets[t] = true
						if c.sortedLater(t) {
							c.bump(rkAppendSorted, "")
						} else {
							c.bump(rkAppendUnsorted, "append to "+t+" with no later sort in the function")
						}
						continue
					}
				}
			}
		}
		c.bump(rkOther, "assignment to outer "+types.ExprString(l))
	}
}

// sortedLater: after the range statement, the enclosing function calls sort.X(target, ...) or
// slices.SortX(target, ...).
func (c *clsState) sortedLater(target string) bool {
	found := false
	ast.Inspect(c.fnBody, func(n ast.Node) bool {
		call, ok := n.(*ast.CallExpr)
		if !ok || call.Pos() < c.rng.End() || len(call.Args) == 0 {
			return true
		}
		sel, ok := call.Fun.(*ast.SelectorExpr)
		if !ok {
			return true
		}
		id, ok := sel.X.(*ast.Ident)
		if !ok {
			return true
		}
		pn, ok := c.info.Uses[id].(*types.PkgName)
		if !ok {
			return true
		}
		p := pn.Imported().Path()
		if (p == "sort" && sel.Sel.Name != "Search" && !strings.HasPrefix(sel.Sel.Name, "Search") && !strings.HasSuffix(sel.Sel.Name, "AreSorted") && !strings.HasSuffix(sel.Sel.Name, "IsSorted")) ||
			(p == "slices" && strings.HasPrefix(sel.Sel.Name, "Sort")) {
			a0 := call.Args[0]
			// sort.Sort(byX(target)) style conversions
			if cv, ok := a0.(*ast.CallExpr); ok && len(cv.Args) == 1 {
				a0 = cv.Args[0]
			}
			if types.ExprString(a0) == target {
				found = true
				var sb strings.Builder
				printer.Fprint(&sb, c.fset, call)
				c.sorts[strings.Join(strings.Fields(sb.String()), " ")] = true
			}
		}
		return true
	})
	return found
}

// ---- Gallina output ----

func q(s string) string { return "\"" + strings.ReplaceAll(s, "\"", "\"\"") + "\"" }

func emit(b *bytes.Buffer, sites []site, nds []nduse) {
	fmt.Fprintf(b, "(* GENERATED by harness/overlay/internal/verifh/c09t from the repository source on every run of\n")
	fmt.Fprintf(b, "   ./check C09.  Do not edit, do not trust a committed copy: the check regenerates it first. *)\n")
	fmt.Fprintf(b, "From Coq Require Import List String ZArith.\nFrom NIC Require Import Determ.Model.\nImport ListNotations.\nOpen Scope string_scope.\n\n")
	fmt.Fprintf(b, "Definition sites : list site := [\n")
	for i, s := range sites {
		sep := ";"
		if i == len(sites)-1 {
			sep = ""
		}
		ts := make([]string, len(s.Targets))
		for j, t := range s.Targets {
			ts[j] = q(t)
		}
		ss := make([]string, len(s.Sorts))
		for j, t := range s.Sorts {
			ss[j] = q(t)
		}
		fmt.Fprintf(b, "  mkSite %s %s %s %d %d %s %s %s %s [%s] [%s] %s%s\n", q(s.Pkg), q(s.File), q(s.Func), s.Index, s.Line,
			q(s.Operand), q(s.KeyT), q(s.ValT), s.Class, strings.Join(ts, "; "), strings.Join(ss, "; "), q(s.Why), sep)
	}
	fmt.Fprintf(b, "].\n\nDefinition nondet_uses : list nduse := [\n")
	for i, n := range nds {
		sep := ";"
		if i == len(nds)-1 {
			sep = ""
		}
		fmt.Fprintf(b, "  mkNd %s %s %s %s %d%s\n", q(n.Kind), q(n.Pkg), q(n.File), q(n.Func), n.Line, sep)
	}
	fmt.Fprintf(b, "].\n")
}
