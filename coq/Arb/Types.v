(* Arbitration model (internal/k8s/configuration.go) -- data.  No proofs in this file.

   Objects carry exactly the attributes the arbitration code looks at; validation verdicts and
   the class predicate are oracle bits carried by the events (the harness obtains them from the
   real validators / HasCorrectIngressClass). *)
From Coq Require Import List ZArith String Ascii Bool.
From NIC Require Import Base.SMap.
Import ListNotations.
Open Scope string_scope.
Open Scope Z_scope.

Record meta := mkMeta {
  m_ns : string; m_name : string; m_uid : string;
  m_ts : Z;        (* creationTimestamp, seconds *)
  m_gen : Z;       (* metadata.generation *)
  m_ann : Z        (* identity of the annotation map (equal ids <-> DeepEqual annotations) *)
}.

Definition mkey (m : meta) : string := m_ns m ++ "/" ++ m_name m.

Definition sgtb (a b : string) : bool :=
  match String.compare a b with Gt => true | _ => false end.

(* chooseObjectMetaWinner *)
Definition wins (a b : meta) : bool :=
  if m_ts a =? m_ts b then sgtb (m_uid a) (m_uid b) else m_ts a <? m_ts b.

Inductive ikind := IRegular | IMaster | IMinion.

Record ingress := mkIng {
  i_meta : meta;
  i_kind : ikind;               (* nginx.org/mergeable-ingress-type annotation *)
  i_hosts : list string;        (* spec.rules[*].host in order *)
  i_paths : list string;        (* spec.rules[0].http.paths[*].path in order *)
  i_challenge : bool            (* label acme.cert-manager.io/http01-solver = "true" *)
}.

Record vserver := mkVS {
  v_meta : meta;
  v_host : string;
  v_routes : list (string * string);       (* (path, route reference or "") in order *)
  v_listener : option (string * string)    (* spec.listener: (http, https) names; None = nil *)
}.

Record vsroute := mkVSR {
  r_meta : meta;
  r_host : string;
  r_subpaths : list string
}.

Record tserver := mkTS {
  t_meta : meta;
  t_lname : string;   (* spec.listener.name *)
  t_proto : string;   (* spec.listener.protocol *)
  t_host : string
}.

Record listener := mkL {
  l_name : string; l_port : Z; l_proto : string; l_ipv4 : string; l_ipv6 : string; l_ssl : bool
}.

(* feature flags of NewConfiguration that arbitration reads *)
Record cfg := mkCfg { tls_passthrough : bool; cert_manager : bool }.

(* ---- resources (what GetResources returns, what changes carry) ---- *)

Record minion_cfg := mkMC { mc_ing : ingress; mc_valid_paths : smap bool }.

Record ing_cfg := mkIC {
  ic_ing : ingress; ic_master : bool; ic_minions : list minion_cfg;
  ic_valid_hosts : smap bool; ic_warnings : list string; ic_child_warnings : smap (list string)
}.

Record vs_cfg := mkVC {
  vc_vs : vserver; vc_vsrs : list vsroute; vc_warnings : list string;
  vc_http_port : Z; vc_https_port : Z;
  vc_http4 : string; vc_http6 : string; vc_https4 : string; vc_https6 : string
}.

Record ts_cfg := mkTC {
  tc_ts : tserver; tc_port : Z; tc_ipv4 : string; tc_ipv6 : string; tc_warnings : list string
}.

Inductive resource := RIng (c : ing_cfg) | RVS (c : vs_cfg) | RTS (c : ts_cfg).

Definition res_meta (r : resource) : meta :=
  match r with
  | RIng c => i_meta (ic_ing c)
  | RVS c => v_meta (vc_vs c)
  | RTS c => t_meta (tc_ts c)
  end.

Definition kind_prefix (r : resource) : string :=
  match r with RIng _ => "Ingress/" | RVS _ => "VirtualServer/" | RTS _ => "TransportServer/" end.

(* GetKeyWithKind *)
Definition rkey (r : resource) : string := kind_prefix r ++ mkey (res_meta r).

Definition res_warnings (r : resource) : list string :=
  match r with RIng c => ic_warnings c | RVS c => vc_warnings c | RTS c => tc_warnings c end.

Definition add_warning (w : string) (r : resource) : resource :=
  match r with
  | RIng c => RIng (mkIC (ic_ing c) (ic_master c) (ic_minions c) (ic_valid_hosts c) (ic_warnings c ++ [w]) (ic_child_warnings c))
  | RVS c => RVS (mkVC (vc_vs c) (vc_vsrs c) (vc_warnings c ++ [w]) (vc_http_port c) (vc_https_port c)
                       (vc_http4 c) (vc_http6 c) (vc_https4 c) (vc_https6 c))
  | RTS c => RTS (mkTC (tc_ts c) (tc_port c) (tc_ipv4 c) (tc_ipv6 c) (tc_warnings c ++ [w]))
  end.

(* ---- changes and problems ---- *)

Inductive op := Delete | AddOrUpdate.

Record change := mkCh { c_op : op; c_res : resource; c_err : bool (* Error <> "" *) }.

(* a ConfigurationProblem, keyed by the object it is about (kind/ns/name) *)
(* p_uid: the UID of the object the problem is about (a problem is reported once per object, not once per name) *)
Record problem := mkP { p_obj : string; p_uid : string; p_is_error : bool; p_reason : string; p_msg : string }.

Definition problem_eqb (a b : problem) : bool :=
  Bool.eqb (p_is_error a) (p_is_error b) && String.eqb (p_reason a) (p_reason b) && String.eqb (p_msg a) (p_msg b) &&
  String.eqb (p_uid a) (p_uid b).

(* ---- events ---- *)

Inductive event :=
| EIng (i : ingress) (cls valid : bool)        (* AddOrUpdateIngress; cls = HasCorrectIngressClass, valid = validateIngress ok *)
| EDelIng (key : string)
| EVS (v : vserver) (cls valid : bool)
| EDelVS (key : string)
| EVSR (r : vsroute) (cls valid : bool)
| EDelVSR (key : string)
| ETS (t : tserver) (cls valid : bool)
| EDelTS (key : string)
| EGC (ls : list listener) (err : bool)        (* ls = spec.listeners AFTER the validator filtered it in place *)
| EDelGC.

Record state := mkSt {
  ings : smap ingress; vss : smap vserver; vsrs : smap vsroute; tss : smap tserver;
  gc : option (list listener);
  hosts : smap resource;          (* host -> owner (final resource value of the rebuild that produced it) *)
  lhosts : smap ts_cfg;           (* listener|host -> owning TransportServer configuration *)
  hprobs : smap problem;          (* hostProblems *)
  lprobs : smap problem           (* listenerProblems *)
}.

Definition init : state := mkSt [] [] [] [] None [] [] [] [].
