(* C11 -- the specification, independent of the automaton of Model.v.

   It speaks only about the history (through the ghost [grun]: current version and whether the
   secret was asked for) and about a directory listing, so it can be evaluated on the listing the
   implementation produced (Cases.v) and is what the theorems of Proofs.v establish of the model. *)
From Coq Require Import List String Ascii Bool ZArith.
From NIC Require Import Base.SMap Secrets.Model.
Import ListNotations.
Open Scope string_scope.

(* the files that must be there for key k, exactly: the derivation of the current version if it
   is valid and was asked for, nothing otherwise *)
Definition expected (g : ghost) (k : string) : list (string * file) :=
  match g k with
  | Some (v, true) => if vvalid v then derived (key_to_fname k) v else []
  | _ => []
  end.

Fixpoint assoc {A} (f : string) (l : list (string * A)) : option A :=
  match l with
  | [] => None
  | (f', c) :: r => if String.eqb f f' then Some c else assoc f r
  end.

(* --- the declarative property (what Proofs.v proves of [run]) --- *)

(* for key k: each of the names derivable from k holds exactly what is expected *)
Definition key_files_exact (g : ghost) (d : disk) (k : string) : Prop :=
  forall f, In f (names_of_key k) -> lookup f d = assoc f (expected g k).

(* two keys never derive a common file name *)
Definition names_disjoint (k1 k2 : string) : Prop :=
  forall f, In f (names_of_key k1) -> In f (names_of_key k2) -> False.

(* --- decidable form --- *)

Definition file_eqb (a b : file) : bool := Z.eqb (fst a) (fst b) && String.eqb (snd a) (snd b).

Definition ofile_eqb (a b : option file) : bool :=
  match a, b with
  | None, None => true
  | Some x, Some y => file_eqb x y
  | _, _ => false
  end.

Definition key_ok (g : ghost) (d : disk) (k : string) : bool :=
  forallb (fun f => ofile_eqb (lookup f d) (assoc f (expected g k))) (names_of_key k).

Definition mem_str (s : string) (l : list string) : bool := existsb (String.eqb s) l.

(* every file of the listing is derivable from some key of the universe *)
Definition owned (univ : list string) (d : disk) : bool :=
  forallb (fun fc => existsb (fun k => mem_str (fst fc) (names_of_key k)) univ) d.

Definition listing_ok (univ : list string) (g : ghost) (d : disk) : bool :=
  owned univ d && forallb (key_ok g d) univ.

(* a reference reports an error exactly when there is no valid current version *)
Definition get_err_expected (g : ghost) (k : string) : bool :=
  match g k with Some (v, _) => negb (vvalid v) | None => true end.

(* a reference to Secret k names only files derived from k: no path, the single file, or the two CA files *)
Definition own_paths (k : string) : list string :=
  let n := key_to_fname k in
  [""; n; (n ++ ca_crt_suffix) ++ " " ++ (n ++ ca_crl_suffix)].
Definition path_ok (k p : string) : bool := mem_str p (own_paths k).

(* the keys of the Secrets of a history: those that are ever added *)
Definition upsert_keys (h : list op) : list string :=
  flat_map (fun o => match o with Upsert ns name _ => [key_of ns name] | _ => [] end) h.

Fixpoint dedup (l : list string) : list string :=
  match l with
  | [] => []
  | x :: r => if mem_str x r then dedup r else x :: dedup r
  end.

Definition universe (h : list op) : list string := dedup (upsert_keys h).

Definition names_disjointb (k1 k2 : string) : bool :=
  forallb (fun f => negb (mem_str f (names_of_key k2))) (names_of_key k1).
