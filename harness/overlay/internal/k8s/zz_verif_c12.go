//go:build verif

package k8s

import (
	"context"
	"fmt"

	"github.com/nginx/kubernetes-ingress/internal/configs"
	"github.com/nginx/kubernetes-ingress/internal/metrics/collectors"
	conf_v1 "github.com/nginx/kubernetes-ingress/pkg/apis/configuration/v1"
	"github.com/nginx/kubernetes-ingress/pkg/apis/configuration/validation"
	fake_v1 "github.com/nginx/kubernetes-ingress/pkg/client/clientset/versioned/fake"
	api_v1 "k8s.io/api/core/v1"
	meta_v1 "k8s.io/apimachinery/pkg/apis/meta/v1"
	"k8s.io/client-go/kubernetes/fake"
	"k8s.io/client-go/tools/cache"
	"k8s.io/client-go/tools/record"
)

// VerifC12 drives the real LoadBalancerController.sync over the production constructor with
// fake clientsets; the informers are never started, the harness fills their stores itself and
// fixes the length of the real work queue before every sync.
type VerifC12 struct {
	lbc *LoadBalancerController
	rec *record.FakeRecorder
}

// VerifC12ConfigMapKey is the key of the watched NGINX ConfigMap.
const VerifC12ConfigMapKey = "nginx-ingress/nginx-config"

// VerifC12MGMTConfigMapKey is the key of the watched MGMT ConfigMap (NGINX Plus).
const VerifC12MGMTConfigMapKey = "nginx-ingress/nginx-config-mgmt"

// VerifC12Opts are the command-line choices of the controller under test.
type VerifC12Opts struct {
	Plus, DynWeights    bool
	Listeners           []conf_v1.Listener
	DefaultServerSecret string   // ns/name
	WildcardTLSSecret   string   // ns/name
	ExternalServiceName string   // the controller's own Service (namespace nginx-ingress)
	Namespaces          []string // watched namespaces; empty = all (one global informer)
	WatchNamespaceLabel string   // -watch-namespace-label: the namespaces above are the ones carrying the label at start
}

// VerifC12New builds the controller through NewLoadBalancerController.
func VerifC12New(cnf *configs.Configurator, plus, dynWeights bool, listeners []conf_v1.Listener) (*VerifC12, error) {
	return VerifC12NewOpts(cnf, VerifC12Opts{Plus: plus, DynWeights: dynWeights, Listeners: listeners})
}

// VerifC12NewOpts builds the controller through NewLoadBalancerController.
func VerifC12NewOpts(cnf *configs.Configurator, o VerifC12Opts) (*VerifC12, error) {
	plus, dynWeights, listeners := o.Plus, o.DynWeights, o.Listeners
	mgmt := ""
	if plus {
		mgmt = VerifC12MGMTConfigMapKey
	}
	watched := o.Namespaces
	if len(watched) == 0 {
		watched = []string{""}
	}
	rec := record.NewFakeRecorder(1 << 14)
	lbc := NewLoadBalancerController(NewLoadBalancerControllerInput{
		KubeClient:                   fake.NewSimpleClientset(),
		ConfClient:                   fake_v1.NewSimpleClientset(),
		Recorder:                     rec,
		LoggerContext:                configs.VerifC12Context(),
		NginxConfigurator:            cnf,
		IsNginxPlus:                  plus,
		IngressClass:                 "nginx",
		Namespace:                    watched,
		SecretNamespace:              watched,
		ControllerNamespace:          "nginx-ingress",
		AreCustomResourcesEnabled:    true,
		MetricsCollector:             collectors.NewControllerFakeCollector(),
		GlobalConfigurationValidator: validation.NewGlobalConfigurationValidator(map[int]bool{}),
		TransportServerValidator:     validation.NewTransportServerValidator(false, false, plus),
		VirtualServerValidator:       validation.NewVirtualServerValidator(validation.IsPlus(plus)),
		ConfigMaps:                   VerifC12ConfigMapKey,
		MGMTConfigMap:                mgmt,
		DefaultServerSecret:          o.DefaultServerSecret,
		WildcardTLSSecret:            o.WildcardTLSSecret,
		ExternalServiceName:          o.ExternalServiceName,
		WatchNamespaceLabel:          o.WatchNamespaceLabel,
		Pod:                          &api_v1.Pod{ObjectMeta: meta_v1.ObjectMeta{Name: "nic-pod", Namespace: "nginx-ingress"}},
		DynamicWeightChangesReload:   dynWeights,
	})
	gc := &conf_v1.GlobalConfiguration{
		ObjectMeta: meta_v1.ObjectMeta{Name: "nginx-configuration", Namespace: "nginx-ingress"},
		Spec:       conf_v1.GlobalConfigurationSpec{Listeners: listeners},
	}
	if _, _, err := lbc.configuration.AddOrUpdateGlobalConfiguration(gc); err != nil {
		return nil, err
	}
	return &VerifC12{lbc: lbc, rec: rec}, nil
}

// kindOf maps the harness's kind names to task kinds.
func kindOf(k string) (kind, error) {
	switch k {
	case "ingress":
		return ingress, nil
	case "virtualserver":
		return virtualserver, nil
	case "transportserver":
		return transportserver, nil
	case "endpointslice":
		return endpointslice, nil
	case "service":
		return service, nil
	case "configmap", "mgmtconfigmap":
		return configMap, nil
	case "secret":
		return secret, nil
	case "namespace":
		return namespace, nil
	}
	return 0, fmt.Errorf("unknown kind %q", k)
}

func (v *VerifC12) store(kind string, obj interface{}) (cache.Store, kind, error) {
	ns := ""
	if m, ok := obj.(meta_v1.Object); ok {
		ns = m.GetNamespace()
	}
	nsi := v.lbc.getNamespacedInformer(ns)
	if nsi == nil && kind != "configmap" && kind != "mgmtconfigmap" {
		return nil, 0, fmt.Errorf("namespace %q is not watched", ns)
	}
	switch kind {
	case "ingress":
		return nsi.ingressLister.Store, ingress, nil
	case "virtualserver":
		return nsi.virtualServerLister, virtualserver, nil
	case "transportserver":
		return nsi.transportServerLister, transportserver, nil
	case "endpointslice":
		return nsi.endpointSliceLister.Store, endpointslice, nil
	case "service":
		return nsi.svcLister, service, nil
	case "configmap":
		return v.lbc.configMapLister.Store, configMap, nil
	case "mgmtconfigmap":
		if v.lbc.mgmtConfigMapLister.Store == nil {
			return nil, 0, fmt.Errorf("no MGMT ConfigMap is watched (not NGINX Plus)")
		}
		return v.lbc.mgmtConfigMapLister.Store, configMap, nil
	case "secret":
		return nsi.secretLister, secret, nil
	}
	return nil, 0, fmt.Errorf("unknown kind %q", kind)
}

// Put adds or replaces an object in the lister store of its kind.
func (v *VerifC12) Put(kind string, obj interface{}) error {
	s, _, err := v.store(kind, obj)
	if err != nil {
		return err
	}
	return s.Add(obj)
}

// Remove deletes an object from the lister store of its kind.
func (v *VerifC12) Remove(kind string, obj interface{}) error {
	s, _, err := v.store(kind, obj)
	if err != nil {
		return err
	}
	return s.Delete(obj)
}

// Sync sets the length of the real work queue to qlen and runs the real lbc.sync on the task.
// It returns the events recorded during the sync.
func (v *VerifC12) Sync(kind, key string, qlen int) ([]string, error) {
	k, err := kindOf(kind)
	if err != nil {
		return nil, err
	}
	q := v.lbc.syncQueue.queue
	for q.Len() > 0 {
		it, _ := q.Get()
		q.Done(it)
	}
	for i := 0; i < qlen; i++ {
		q.Add(task{Kind: secret, Key: fmt.Sprintf("verif-pending/%d", i)})
	}
	if q.Len() != qlen {
		return nil, fmt.Errorf("queue length %d, wanted %d", q.Len(), qlen)
	}
	v.lbc.sync(task{Kind: k, Key: key})
	var evs []string
	for {
		select {
		case e := <-v.rec.Events:
			evs = append(evs, e)
		default:
			if q.Len() != qlen {
				return evs, fmt.Errorf("the sync changed the queue length from %d to %d (requeue)", qlen, q.Len())
			}
			return evs, nil
		}
	}
}

// PutClientSecret creates or replaces a Secret in the (fake) API server: updateAllConfigs reads the MGMT
// secrets through the client, not through the lister.
func (v *VerifC12) PutClientSecret(s *api_v1.Secret) error {
	c := v.lbc.client.CoreV1().Secrets(s.Namespace)
	if _, err := c.Get(context.TODO(), s.Name, meta_v1.GetOptions{}); err != nil {
		_, err = c.Create(context.TODO(), s, meta_v1.CreateOptions{})
		return err
	}
	_, err := c.Update(context.TODO(), s, meta_v1.UpdateOptions{})
	return err
}

// SetNamespace creates the (Active) Namespace in the fake API server and puts it into, or takes it out of, the
// store of the label-filtered Namespace informer (what a label edit does).
func (v *VerifC12) SetNamespace(name string, labelled bool) error {
	nsObj := &api_v1.Namespace{ObjectMeta: meta_v1.ObjectMeta{Name: name}, Status: api_v1.NamespaceStatus{Phase: api_v1.NamespaceActive}}
	c := v.lbc.client.CoreV1().Namespaces()
	if _, err := c.Get(context.TODO(), name, meta_v1.GetOptions{}); err != nil {
		if _, err := c.Create(context.TODO(), nsObj, meta_v1.CreateOptions{}); err != nil {
			return err
		}
	}
	if v.lbc.namespaceLabeledLister == nil {
		return fmt.Errorf("the controller does not watch namespaces by label")
	}
	if labelled {
		return v.lbc.namespaceLabeledLister.Add(nsObj)
	}
	return v.lbc.namespaceLabeledLister.Delete(nsObj)
}

// Watched says whether the controller has informers for the namespace.
func (v *VerifC12) Watched(ns string) bool { return v.lbc.getNamespacedInformer(ns) != nil }

// Flags reads the batch and start-up state of the controller.
func (v *VerifC12) Flags() (ready, batch, enableBatchReload, updateAllOnBatch bool) {
	return v.lbc.isNginxReady, v.lbc.batchSyncEnabled, v.lbc.enableBatchReload, v.lbc.updateAllConfigsOnBatch
}
