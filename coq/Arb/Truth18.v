(* C05 truth proof, part 18: the invariant and its step *)
From Coq Require Import List ZArith String Ascii Bool Lia.
From NIC Require Import Base.SMap Arb.Types Arb.Model Arb.Spec Arb.WinsProofs Arb.InvProofs Arb.OwnerProofs
     Arb.ListenerProofs Arb.ClassProofs Arb.ChangeProofs Arb.ReportProofs Arb.ComposeProofs Arb.Cases Arb.ShadowProofs Arb.ShadowAttrs.
From NIC Require Import Arb.Truth01 Arb.Truth02 Arb.Truth03 Arb.Truth04 Arb.Truth05 Arb.Truth06 Arb.Truth07 Arb.Truth08 Arb.Truth09 Arb.Truth10 Arb.Truth11 Arb.Truth12 Arb.Truth13 Arb.Truth14 Arb.Truth15 Arb.Truth16 Arb.Truth17.
Import ListNotations.
Open Scope string_scope.
Open Scope Z_scope.

Definition said_no (L : smap report) (k : string) : Prop := exists r, lookup k L = Some r /\ is_ok r = false.
Definition said_ok (L : smap report) (k : string) : Prop := exists w, lookup k L = Some (ROk w).

Record inv (c : cfg) (es : list event) : Prop := {
  inv_wf : wf (last_reports c es);
  (* a standing problem has been told and nothing better has been said since *)
  inv_J : forall k, Pst (run c es) k -> said_no (last_reports c es) k;
  (* an object whose last upsert was invalid has been told so *)
  inv_I2 : forall k e0, lookup k (cluster es) = Some e0 -> own_invalid e0 = true -> said_no (last_reports c es) k;
  (* an applied object has a success as the last report *)
  inv_I3 : forall k, Ap (run c es) k -> said_ok (last_reports c es) k
}.

Lemma wf_fold_ins rs : forall m, wf m -> wf (fold_left ins rs m).
Proof. induction rs as [|x r IH]; intros m W; cbn [fold_left]; [exact W|]. apply IH. unfold ins. apply wf_insert. exact W. Qed.

Lemma wf_forget cl e L : wf L -> wf (forget cl e L).
Proof.
  intros W. destruct e; cbn [forget event_obj]; try exact W; try (apply wf_remove; exact W);
    match goal with |- wf (match lookup ?a ?b with _ => _ end) => destruct (lookup a b); [|exact W] end;
    match goal with |- wf (if ?b then _ else _) => destruct b; [exact W|apply wf_remove; exact W] end.
Qed.

Lemma inv_nil c : inv c [].
Proof.
  constructor.
  - constructor.
  - intros k [H|H]; exfalso; apply H; reflexivity.
  - intros k e0 H. discriminate H.
  - intros k [H|[(M & ic & m & L & _)|(V & vc & x & L & _)]].
    + exfalso. apply H. unfold run. cbn [fold_left]. unfold get_resources. cbn. reflexivity.
    + unfold run in L. cbn in L. discriminate.
    + unfold run in L. cbn in L. discriminate.
Qed.

Section Step.
  Variables (c : cfg) (es : list event) (e : event).
  Hypothesis Hy' : hyps c (es ++ [e])%list.
  Hypothesis IH : inv c es.
  Let Hy := hyps_prefix c es e Hy'.
  Let S := run c es.
  Let S' := run c (es ++ [e])%list.
  Let L := last_reports c es.
  Let L' := last_reports c (es ++ [e])%list.
  Let rs := step_reports c es e.

  Lemma L'_lookup k : lookup k L' = match last_report k rs None with Some r => Some r | None => lookup k (forget (cluster es) e L) end.
  Proof. unfold L', rs, L. rewrite last_reports_snoc. apply fold_ins_lookup. Qed.

  (* a success is only reported about something the step leaves applied *)
  Lemma ok_report_applied k w : In (k, ROk w) rs -> Ap S' k.
  Proof.
    unfold rs. rewrite step_reports_eq. intros Hin. apply in_app_or in Hin. destruct Hin as [Hin|Hin].
    - destruct (ok_report_covered _ _ _ _ _ Hin) as (ch & Hch & Hcov).
      exact (covered_applied c es e (h_role _ _ Hy') ch k Hch Hcov).
    - unfold prob_reports in Hin. apply in_map_iff in Hin. destruct Hin as (p & Heq & _). discriminate.
  Qed.

  Lemma not_applied_reports_no k r : ~ Ap S' k -> In (k, r) rs -> is_ok r = false.
  Proof. intros HA Hin. destruct r as [w| |]; try reflexivity. exfalso. exact (HA (ok_report_applied k w Hin)). Qed.

  (* a problem of the step about k: k has a standing problem afterwards, or k is the invalid object of the event *)
  Lemma prob_report_why k r : In (k, r) (prob_reports (probs c es e)) ->
    Pst S' k \/ (own_invalid e = true /\ event_obj e = Some (k, true)).
  Proof.
    unfold prob_reports. intros Hin. apply in_map_iff in Hin. destruct Hin as (p & Heq & Hp). inversion Heq; subst k.
    destruct (step_probs c S e (run_full_inv c es)) as (A & _ & _). unfold probs in Hp. fold S in Hp.
    destruct (A p Hp) as [Hd|[Hd|(Hi & _ & Ho)]].
    - left; left. unfold hdelta in Hd. apply in_problem_delta in Hd. destruct Hd as (k & Hin & _).
      assert (W : wf (hprobs (step_state c S e))) by (apply (wf_hprobs c); apply full_inv_step; apply run_full_inv).
      apply In_lookup in Hin; [|exact W]. unfold S'. rewrite run_snoc. fold S.
      assert (Ek : p_obj p = k).
      { pose proof (full_inv_step c S e (run_full_inv c es)) as (_ & Hp' & _). rewrite Hp' in Hin. exact (hprobs_keyed c _ k p (lookup_In _ _ _ Hin)). }
      rewrite Ek, Hin. discriminate.
    - left; right. unfold ldelta in Hd. apply in_problem_delta in Hd. destruct Hd as (k & Hin & _).
      assert (W : wf (lprobs (step_state c S e))) by (apply (wf_lprobs c); apply full_inv_step; apply run_full_inv).
      apply In_lookup in Hin; [|exact W]. unfold S'. rewrite run_snoc. fold S.
      assert (Ek : p_obj p = k).
      { pose proof (full_inv_step c S e (run_full_inv c es)) as (_ & _ & Hp'). rewrite Hp' in Hin. exact (proj1 (lprob_who _ k p Hin)). }
      rewrite Ek, Hin. discriminate.
    - right. auto.
  Qed.

  (* a standing problem after the step was reported by the step, or stood before with the same UID *)
  Lemma standing_why k : Pst S' k ->
    (exists r, In (k, r) (prob_reports (probs c es e))) \/
    (exists u, who (objs_after es) k u /\ who (objs_after (es ++ [e])%list) k u /\ Pst S k).
  Proof.
    destruct (step_probs c S e (run_full_inv c es)) as (_ & B & C).
    intros [H|H]; unfold S' in H; rewrite run_snoc in H; fold S in H.
    - destruct (lookup k (hprobs (step_state c S e))) as [p|] eqn:Lp; [|congruence].
      destruct (lookup k (hprobs S)) as [p0|] eqn:L0.
      + destruct (problem_eqb p p0) eqn:Eq.
        * right. exists (p_uid p). split; [|split].
          -- rewrite (problem_eqb_uid _ _ Eq). exact (proj2 (st_hwho c es Hy k p0 L0)).
          -- assert (Lp' : lookup k (hprobs (run c (es ++ [e])%list)) = Some p) by (rewrite run_snoc; exact Lp).
             exact (proj2 (st_hwho c _ Hy' k p Lp')).
          -- left. fold S. congruence.
        * left. assert (Hd : In p (hdelta S (step_state c S e))).
          { unfold hdelta. apply in_problem_delta. exists k. split; [apply lookup_In; exact Lp|]. rewrite L0. exact Eq. }
          assert (Lp' : lookup k (hprobs (run c (es ++ [e])%list)) = Some p) by (rewrite run_snoc; exact Lp).
          exists (RProblem (p_is_error p) (p_reason p)). unfold prob_reports. apply in_map_iff. exists p. split; [|exact (B p Hd)].
          rewrite (proj1 (st_hwho c _ Hy' k p Lp')). reflexivity.
      + left. assert (Hd : In p (hdelta S (step_state c S e))).
        { unfold hdelta. apply in_problem_delta. exists k. split; [apply lookup_In; exact Lp|]. rewrite L0. exact I. }
        assert (Lp' : lookup k (hprobs (run c (es ++ [e])%list)) = Some p) by (rewrite run_snoc; exact Lp).
        exists (RProblem (p_is_error p) (p_reason p)). unfold prob_reports. apply in_map_iff. exists p. split; [|exact (B p Hd)].
        rewrite (proj1 (st_hwho c _ Hy' k p Lp')). reflexivity.
    - destruct (lookup k (lprobs (step_state c S e))) as [p|] eqn:Lp; [|congruence].
      destruct (lookup k (lprobs S)) as [p0|] eqn:L0.
      + destruct (problem_eqb p p0) eqn:Eq.
        * right. exists (p_uid p). split; [|split].
          -- rewrite (problem_eqb_uid _ _ Eq). exact (proj2 (st_lwho c es k p0 L0)).
          -- assert (Lp' : lookup k (lprobs (run c (es ++ [e])%list)) = Some p) by (rewrite run_snoc; exact Lp).
             exact (proj2 (st_lwho c _ k p Lp')).
          -- right. fold S. congruence.
        * left. assert (Hd : In p (ldelta S (step_state c S e))).
          { unfold ldelta. apply in_problem_delta. exists k. split; [apply lookup_In; exact Lp|]. rewrite L0. exact Eq. }
          assert (Lp' : lookup k (lprobs (run c (es ++ [e])%list)) = Some p) by (rewrite run_snoc; exact Lp).
          exists (RProblem (p_is_error p) (p_reason p)). unfold prob_reports. apply in_map_iff. exists p. split; [|exact (C p Hd)].
          rewrite (proj1 (st_lwho c _ k p Lp')). reflexivity.
      + left. assert (Hd : In p (ldelta S (step_state c S e))).
        { unfold ldelta. apply in_problem_delta. exists k. split; [apply lookup_In; exact Lp|]. rewrite L0. exact I. }
        assert (Lp' : lookup k (lprobs (run c (es ++ [e])%list)) = Some p) by (rewrite run_snoc; exact Lp).
        exists (RProblem (p_is_error p) (p_reason p)). unfold prob_reports. apply in_map_iff. exists p. split; [|exact (C p Hd)].
        rewrite (proj1 (st_lwho c _ k p Lp')). reflexivity.
  Qed.
End Step.
