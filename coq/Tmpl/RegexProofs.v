(* Tmpl/RegexProofs.v -- correctness of the derivative matcher of Regex.v with respect to the
   usual denotational semantics, and soundness of the inclusion checker.

     lang : re -> string -> Prop         the language of a regular expression (inductive definition)
     matches_lang                        matches r s = true <-> lang r s
                                         (so the smart constructors mkCat / mkAlt and deriv are
                                          correct: mkCat_lang, mkAlt_lang, deriv_lang, nullable_lang)
     matches_empty                       matches REmpty s = false
     matches_star_cls                    matches (RStar (RCls f)) s = forallb (cs_mem f) (bytes of s)
     closed_ok_sound / incl_check_sound  incl_check R q ok = true -> forall s, matches R s = true ->
                                         exists q' e, run q s = (q', e) /\ structural e = [] /\ ok q' = true
     incl_check_strict_sound             incl_check_strict R q ok = true -> forall s, matches R s = true ->
                                         exists q', run q s = (q', []) /\ ok q' = true
     bytes_in_sound                      bytes_in f r = true -> matches r s = true -> str_forall f s = true *)
From Coq Require Import List String Ascii Bool Arith.
From NIC Require Import Lex.Lexer Tmpl.LexAux Tmpl.Regex.
Import ListNotations.
Open Scope string_scope.
Open Scope list_scope.

(* ---------------------------------------------------------------- decidable equality *)

Lemma ranges_eqb_eq : forall a b, ranges_eqb a b = true -> a = b.
Proof.
  induction a as [|[x1 x2] a IH]; destruct b as [|[y1 y2] b]; cbn; intro H;
    try reflexivity; try discriminate.
  apply andb_true_iff in H. destruct H as [H H3]. apply andb_true_iff in H. destruct H as [H1 H2].
  apply Nat.eqb_eq in H1. apply Nat.eqb_eq in H2. subst. f_equal. now apply IH.
Qed.

Lemma cs_eqb_eq : forall f g, cs_eqb f g = true -> f = g.
Proof.
  intros [n1 r1] [n2 r2] H. cbn in H. apply andb_true_iff in H. destruct H as [H1 H2].
  apply Bool.eqb_prop in H1. apply ranges_eqb_eq in H2. now subst.
Qed.

Lemma re_eqb_eq : forall a b, re_eqb a b = true -> a = b.
Proof.
  induction a; destruct b; cbn; intro H; try reflexivity; try discriminate.
  - apply Ascii.eqb_eq in H. now subst.
  - apply cs_eqb_eq in H. now subst.
  - apply andb_true_iff in H. destruct H as [H1 H2]. f_equal; auto.
  - apply andb_true_iff in H. destruct H as [H1 H2]. f_equal; auto.
  - f_equal; auto.
Qed.

Lemma mem_re_In : forall r l, mem_re r l = true -> In r l.
Proof.
  intros r l H. unfold mem_re in H. apply existsb_exists in H. destruct H as (x & Hx & He).
  apply re_eqb_eq in He. now subst.
Qed.

Lemma mem_ps_In : forall x V, mem_ps x V = true -> In x V.
Proof.
  intros [r q] V H. unfold mem_ps in H. apply existsb_exists in H.
  destruct H as ([r' q'] & Hx & He). unfold ps_eqb in He. cbn [fst snd] in He.
  apply andb_true_iff in He. destruct He as [H1 H2].
  apply lstate_eqb_eq in H1. apply re_eqb_eq in H2. now subst.
Qed.

(* ---------------------------------------------------------------- semantics *)

Inductive lang : re -> string -> Prop :=
| LEps : lang REps EmptyString
| LChr : forall c, lang (RChr c) (String c EmptyString)
| LCls : forall f c, cs_mem f c = true -> lang (RCls f) (String c EmptyString)
| LCat : forall a b s1 s2, lang a s1 -> lang b s2 -> lang (RCat a b) (s1 ++ s2)%string
| LAltL : forall a b s, lang a s -> lang (RAlt a b) s
| LAltR : forall a b s, lang b s -> lang (RAlt a b) s
| LStar0 : forall a, lang (RStar a) EmptyString
| LStarS : forall a s1 s2, lang a s1 -> lang (RStar a) s2 -> lang (RStar a) (s1 ++ s2)%string.

Lemma lang_empty : forall s, ~ lang REmpty s.
Proof. intros s H. inversion H. Qed.

Lemma lang_eps : forall s, lang REps s -> s = EmptyString.
Proof. intros s H. now inversion H. Qed.

Lemma lang_cat : forall a b s,
    lang (RCat a b) s <-> exists s1 s2, s = (s1 ++ s2)%string /\ lang a s1 /\ lang b s2.
Proof.
  intros. split.
  - intro H. inversion H; subst. now exists s1, s2.
  - intros (s1 & s2 & -> & H1 & H2). now constructor.
Qed.

Lemma lang_alt : forall a b s, lang (RAlt a b) s <-> lang a s \/ lang b s.
Proof.
  intros. split.
  - intro H. inversion H; subst; auto.
  - intros [H|H]; [now apply LAltL|now apply LAltR].
Qed.

Lemma append_eq_empty : forall a b : string, (a ++ b)%string = EmptyString -> a = EmptyString /\ b = EmptyString.
Proof. destruct a; cbn; intros b H; [now split|discriminate]. Qed.

Lemma lang_nullable : forall r s, lang r s -> s = EmptyString -> nullable r = true.
Proof.
  induction 1; intro E; cbn; try reflexivity; try discriminate.
  - apply append_eq_empty in E. destruct E as [-> ->]. now rewrite IHlang1, IHlang2.
  - now rewrite IHlang.
  - rewrite IHlang by assumption. apply orb_true_r.
Qed.

Lemma nullable_lang : forall r, nullable r = true <-> lang r EmptyString.
Proof.
  intro r. split; [|intro H; now apply lang_nullable with EmptyString].
  induction r; cbn; intro H; try discriminate.
  - constructor.
  - apply andb_true_iff in H. destruct H as [H1 H2].
    change EmptyString with (EmptyString ++ EmptyString)%string. constructor; auto.
  - apply orb_true_iff in H. destruct H as [H|H]; [apply LAltL|apply LAltR]; auto.
  - constructor.
Qed.

(* ---------------------------------------------------------------- smart constructors *)

Lemma mkCat_lang : forall a b s, lang (mkCat a b) s <-> lang (RCat a b) s.
Proof.
  intros a b s.
  assert (E0 : forall x, lang REmpty s <-> lang (RCat REmpty x) s).
  { intro x. split; intro H; [now apply lang_empty in H|].
    apply lang_cat in H. destruct H as (s1 & s2 & _ & H & _). now apply lang_empty in H. }
  assert (E1 : forall x, lang REmpty s <-> lang (RCat x REmpty) s).
  { intro x. split; intro H; [now apply lang_empty in H|].
    apply lang_cat in H. destruct H as (s1 & s2 & _ & _ & H). now apply lang_empty in H. }
  assert (U0 : forall x, lang x s <-> lang (RCat REps x) s).
  { intro x. split; intro H.
    - change s with (EmptyString ++ s)%string. constructor; [constructor|assumption].
    - apply lang_cat in H. destruct H as (s1 & s2 & -> & H1 & H2).
      apply lang_eps in H1. now subst. }
  assert (U1 : forall x, lang x s <-> lang (RCat x REps) s).
  { intro x. split; intro H.
    - rewrite <- (append_nil_r s). constructor; [assumption|constructor].
    - apply lang_cat in H. destruct H as (s1 & s2 & -> & H1 & H2).
      apply lang_eps in H2. subst. now rewrite append_nil_r. }
  destruct a; cbn [mkCat]; try apply E0; try apply U0;
    destruct b; try apply E1; try apply U1; reflexivity.
Qed.

Lemma alts_lang : forall r s, lang r s <-> exists x, In x (alts r) /\ lang x s.
Proof.
  assert (One : forall r s, lang r s <-> exists x, In x [r] /\ lang x s).
  { intros. split.
    - intro H. exists r. split; [now left|assumption].
    - intros (x & [<-|[]] & H). assumption. }
  induction r; intro s; cbn [alts]; try apply One.
  - split; [intro H; now apply lang_empty in H|intros (x & [] & _)].
  - rewrite lang_alt, IHr1, IHr2. split.
    + intros [(x & Hx & H)|(x & Hx & H)]; exists x; (split; [apply in_app_iff; auto|assumption]).
    + intros (x & Hx & H). apply in_app_iff in Hx. destruct Hx; [left|right]; now exists x.
Qed.

Lemma mk_alts_lang : forall l s, lang (mk_alts l) s <-> exists x, In x l /\ lang x s.
Proof.
  induction l as [|r t IH]; intro s; cbn [mk_alts].
  - split; [intro H; now apply lang_empty in H|intros (x & [] & _)].
  - destruct t as [|r2 t].
    + split.
      * intro H. exists r. split; [now left|assumption].
      * intros (x & [<-|[]] & H). assumption.
    + rewrite lang_alt, IH. split.
      * intros [H|(x & Hx & H)]; [exists r; split; [now left|assumption]|].
        exists x. split; [now right|assumption].
      * intros (x & [<-|Hx] & H); [now left|]. right. now exists x.
Qed.

Lemma nodup_re_In : forall l x, In x (nodup_re l) <-> In x l.
Proof.
  induction l as [|r t IH]; intro x; cbn [nodup_re]; [reflexivity|].
  destruct (mem_re r t) eqn:E.
  - rewrite IH. split; [now right|]. intros [<-|H]; [now apply mem_re_In|assumption].
  - cbn [In]. now rewrite IH.
Qed.

Lemma mkAlt_lang : forall a b s, lang (mkAlt a b) s <-> lang (RAlt a b) s.
Proof.
  intros. unfold mkAlt. rewrite mk_alts_lang, lang_alt, (alts_lang a), (alts_lang b). split.
  - intros (x & Hx & H). apply nodup_re_In, in_app_iff in Hx.
    destruct Hx; [left|right]; now exists x.
  - intros [(x & Hx & H)|(x & Hx & H)]; exists x;
      (split; [apply nodup_re_In, in_app_iff; auto|assumption]).
Qed.

(* ---------------------------------------------------------------- derivatives *)

Lemma star_cons_inv : forall r t, lang r t -> forall a c s, r = RStar a -> t = String c s ->
    exists s1 s2, s = (s1 ++ s2)%string /\ lang a (String c s1) /\ lang (RStar a) s2.
Proof.
  induction 1; intros a0 c0 s0 Er Et; try discriminate.
  injection Er as ->. destruct s1 as [|c1 s1].
  - cbn in Et. now apply IHlang2.
  - cbn in Et. injection Et as -> <-. now exists s1, s2.
Qed.

Lemma deriv_lang : forall r c s, lang (deriv r c) s <-> lang r (String c s).
Proof.
  induction r as [| |d|f|r1 IHr1 r2 IHr2|r1 IHr1 r2 IHr2|r IHr]; intros c s; cbn [deriv].
  - split; intro H; now apply lang_empty in H.
  - split; intro H; [now apply lang_empty in H|inversion H].
  - destruct (Ascii.eqb c d) eqn:E.
    + apply Ascii.eqb_eq in E. subst d. split; intro H.
      * apply lang_eps in H. subst. constructor.
      * inversion H; subst. constructor.
    + split; intro H; [now apply lang_empty in H|].
      inversion H; subst. now rewrite Ascii.eqb_refl in E.
  - destruct (cs_mem f c) eqn:E.
    + split; intro H.
      * apply lang_eps in H. subst. now constructor.
      * inversion H; subst. constructor.
    + split; intro H; [now apply lang_empty in H|].
      inversion H; subst. congruence.
  - assert (Step : lang (mkCat (deriv r1 c) r2) s <->
                   exists s1 s2, s = (s1 ++ s2)%string /\ lang r1 (String c s1) /\ lang r2 s2).
    { rewrite mkCat_lang, lang_cat. split; intros (s1 & s2 & E & H1 & H2); exists s1, s2;
        (split; [assumption|split; [now apply IHr1|assumption]]). }
    destruct (nullable r1) eqn:N.
    + rewrite mkAlt_lang, lang_alt, Step, IHr2, lang_cat. split.
      * intros [(s1 & s2 & -> & H1 & H2)|H].
        -- exists (String c s1), s2. now repeat split.
        -- exists EmptyString, (String c s). repeat split; [now apply nullable_lang|assumption].
      * intros (s1 & s2 & E & H1 & H2). destruct s1 as [|c1 s1].
        -- cbn in E. subst s2. now right.
        -- cbn in E. injection E as <- ->. left. now exists s1, s2.
    + rewrite Step, lang_cat. split.
      * intros (s1 & s2 & -> & H1 & H2). exists (String c s1), s2. now repeat split.
      * intros (s1 & s2 & E & H1 & H2). destruct s1 as [|c1 s1].
        -- apply nullable_lang in H1. congruence.
        -- cbn in E. injection E as <- ->. now exists s1, s2.
  - rewrite mkAlt_lang, !lang_alt, IHr1, IHr2. reflexivity.
  - rewrite mkCat_lang, lang_cat. split.
    + intros (s1 & s2 & -> & H1 & H2). apply IHr in H1.
      change (String c (s1 ++ s2)) with (String c s1 ++ s2)%string. now constructor.
    + intro H. destruct (star_cons_inv _ _ H r c s eq_refl eq_refl) as (s1 & s2 & -> & H1 & H2).
      exists s1, s2. repeat split; [now apply IHr|assumption].
Qed.

Theorem matches_lang : forall s r, matches r s = true <-> lang r s.
Proof.
  induction s as [|c s IH]; intro r; cbn [matches].
  - apply nullable_lang.
  - rewrite IH. apply deriv_lang.
Qed.

Lemma matches_empty : forall s, matches REmpty s = false.
Proof. induction s as [|c s IH]; cbn; [reflexivity|exact IH]. Qed.

Lemma matches_cons : forall r c s, matches r (String c s) = matches (deriv r c) s.
Proof. reflexivity. Qed.

Lemma matches_star_cls : forall f s,
    matches (RStar (RCls f)) s = forallb (cs_mem f) (list_ascii_of_string s).
Proof.
  intros f. induction s as [|c s IH]; [reflexivity|].
  cbn [matches deriv list_ascii_of_string forallb]. destruct (cs_mem f c); cbn [mkCat andb].
  - exact IH.
  - apply matches_empty.
Qed.

(* ---------------------------------------------------------------- the inclusion checker *)

Theorem closed_gen_sound : forall keep ok V,
    closed_gen keep ok V = true ->
    forall s r q, In (r, q) V -> matches r s = true ->
    exists q' e, run q s = (q', e) /\ filter keep e = [] /\ ok q' = true.
Proof.
  intros keep ok V HV. unfold closed_gen in HV. rewrite forallb_forall in HV.
  induction s as [|c s IH]; intros r q Hin Hm.
  - pose proof (HV _ Hin) as Hrow. unfold closed_row_gen in Hrow.
    apply andb_true_iff in Hrow. destruct Hrow as [Hn _].
    cbn [matches] in Hm. rewrite Hm in Hn. cbn in Hn.
    exists q, []. now repeat split.
  - pose proof (HV _ Hin) as Hrow. unfold closed_row_gen in Hrow.
    apply andb_true_iff in Hrow. destruct Hrow as [_ Hb].
    pose proof (forall_bytes _ Hb c) as Hc. cbn beta zeta in Hc.
    cbn [matches] in Hm.
    destruct (is_empty (deriv r c)) eqn:Ee.
    + destruct (deriv r c); try discriminate Ee. now rewrite matches_empty in Hm.
    + destruct (step q c) as [q1 e1] eqn:Es.
      apply andb_true_iff in Hc. destruct Hc as [Hc Hmem].
      apply andb_true_iff in Hc. destruct Hc as [Hnil _].
      apply is_nil_eq in Hnil. apply mem_ps_In in Hmem.
      destruct (IH _ _ Hmem Hm) as (q2 & e2 & R2 & N2 & O2).
      exists q2, (e1 ++ e2). cbn [run]. rewrite Es, R2.
      split; [reflexivity|]. split; [|assumption]. now rewrite filter_app, Hnil, N2.
Qed.

Theorem closed_ok_sound : forall ok V,
    closed_ok ok V = true ->
    forall s r q, In (r, q) V -> matches r s = true ->
    exists q' e, run q s = (q', e) /\ structural e = [] /\ ok q' = true.
Proof. intros ok V H. exact (closed_gen_sound is_struct ok V H). Qed.

Lemma check_cert_sound : forall keep R q ok o,
    check_cert keep R q ok o = true ->
    forall s, matches R s = true ->
    exists q' e, run q s = (q', e) /\ filter keep e = [] /\ ok q' = true.
Proof.
  intros keep R q ok o H s Hm. destruct o as [V|]; cbn [check_cert] in H; [|discriminate].
  apply andb_true_iff in H. destruct H as [Hmem Hc].
  apply (closed_gen_sound keep ok V Hc s R q); [now apply mem_ps_In|assumption].
Qed.

Lemma incl_check_unfold : forall R q ok,
    incl_check R q ok = check_cert is_struct R q ok (explore 200 R q).
Proof. intros. reflexivity. Qed.

Lemma incl_check_strict_unfold : forall R q ok,
    incl_check_strict R q ok = check_cert keep_all R q ok (explore 200 R q).
Proof. intros. reflexivity. Qed.

Theorem incl_check_sound : forall R q ok,
    incl_check R q ok = true ->
    forall s, matches R s = true ->
    exists q' e, run q s = (q', e) /\ structural e = [] /\ ok q' = true.
Proof.
  intros R q ok H. rewrite incl_check_unfold in H. exact (check_cert_sound is_struct R q ok _ H).
Qed.

Lemma filter_keep_all : forall e : list ev, filter keep_all e = e.
Proof. induction e as [|x e IH]; cbn; [reflexivity|]. now rewrite IH. Qed.

Theorem incl_check_strict_sound : forall R q ok,
    incl_check_strict R q ok = true ->
    forall s, matches R s = true -> exists q', run q s = (q', []) /\ ok q' = true.
Proof.
  intros R q ok H s Hm. rewrite incl_check_strict_unfold in H.
  destruct (check_cert_sound keep_all R q ok _ H s Hm) as (q' & e & H1 & H2 & H3).
  rewrite filter_keep_all in H2. subst e. now exists q'.
Qed.

(* with ok = membership in a list of states *)
Corollary incl_check_in : forall R q l,
    incl_check R q (ok_in l) = true ->
    forall s, matches R s = true ->
    exists q' e, run q s = (q', e) /\ structural e = [] /\ In q' l.
Proof.
  intros R q l H s Hm. destruct (incl_check_sound R q _ H s Hm) as (q' & e & H1 & H2 & H3).
  exists q', e. repeat split; try assumption. now apply mem_st_In.
Qed.

(* ---------------------------------------------------------------- bytes of a language *)

Lemma bytes_in_lang : forall f r s, lang r s -> bytes_in f r = true -> str_forall f s = true.
Proof.
  intros f.
  induction 1 as [|c|g c Hg|a b s1 s2 H1 IH1 H2 IH2|a b s H1 IH1|a b s H1 IH1|a|a s1 s2 H1 IH1 H2 IH2];
    cbn [bytes_in str_forall]; intro Hb; try reflexivity.
  - now rewrite Hb.
  - pose proof (forall_bytes _ Hb c) as Hc. cbn beta in Hc. rewrite Hg in Hc. cbn in Hc.
    now rewrite Hc.
  - apply andb_true_iff in Hb. destruct Hb as [Ha Hb].
    rewrite str_forall_app, IH1, IH2; auto.
  - apply andb_true_iff in Hb. destruct Hb as [Ha Hb]. auto.
  - apply andb_true_iff in Hb. destruct Hb as [Ha Hb]. auto.
  - rewrite str_forall_app, IH1, IH2; auto.
Qed.

Theorem bytes_in_sound : forall f r s,
    bytes_in f r = true -> matches r s = true -> str_forall f s = true.
Proof. intros f r s Hb Hm. apply matches_lang in Hm. now apply bytes_in_lang with r. Qed.
