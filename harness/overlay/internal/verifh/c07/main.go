//go:build verif

// Harness for C07: random SETS of resources (Ingress regular / master+minions, VirtualServer +
// VirtualServerRoutes, TransportServer) in several namespaces, with every state of the Secrets,
// Services, endpoints and Policies they refer to, are pushed through the REAL Configuration
// (validation + arbitration), the REAL Ex constructors of the controller and the REAL Configurator
// with the real templates, over a recording nginx.Manager.  Observable: the complete set of
// configuration files (name -> bytes) the manager holds at the end.
package main

import (
	"context"
	"fmt"
	"os"
	"path/filepath"
	"sort"
	"strings"

	api_v1 "k8s.io/api/core/v1"
	discovery_v1 "k8s.io/api/discovery/v1"
	networking "k8s.io/api/networking/v1"
	meta_v1 "k8s.io/apimachinery/pkg/apis/meta/v1"
	"k8s.io/apimachinery/pkg/types"
	"k8s.io/apimachinery/pkg/util/intstr"

	"github.com/nginx/kubernetes-ingress/internal/configs"
	"github.com/nginx/kubernetes-ingress/internal/configs/version1"
	"github.com/nginx/kubernetes-ingress/internal/configs/version2"
	"github.com/nginx/kubernetes-ingress/internal/k8s"
	"github.com/nginx/kubernetes-ingress/internal/k8s/secrets"
	"github.com/nginx/kubernetes-ingress/internal/nginx"
	"github.com/nginx/kubernetes-ingress/internal/verifh/vh"
	conf_v1 "github.com/nginx/kubernetes-ingress/pkg/apis/configuration/v1"
)

// ---------------------------------------------------------------- recording manager

type recMgr struct {
	*nginx.FakeManager
	files map[string][]byte
	// every distinct (name, content) that was on disk at some Reload, and the file set at each Reload
	versions []fileVersion
	index    map[string]int
	snaps    [][]int
}

type fileVersion struct {
	name    string
	content []byte
}

func newRecMgr() *recMgr {
	return &recMgr{FakeManager: nginx.NewFakeManager("/etc/nginx"), files: map[string][]byte{}, index: map[string]int{}}
}

// snapshot records the set of files NGINX would load now.
func (m *recMgr) snapshot() {
	var names []string
	for n := range m.files {
		names = append(names, n)
	}
	sort.Strings(names)
	var snap []int
	for _, n := range names {
		k := n + "\x00" + string(m.files[n])
		i, ok := m.index[k]
		if !ok {
			i = len(m.versions)
			m.index[k] = i
			m.versions = append(m.versions, fileVersion{n, cp(m.files[n])})
		}
		snap = append(snap, i)
	}
	if l := len(m.snaps); l > 0 && fmt.Sprint(m.snaps[l-1]) == fmt.Sprint(snap) {
		return
	}
	m.snaps = append(m.snaps, snap)
}

// Reload is where NGINX reads the files: snapshot the set.
func (m *recMgr) Reload(_ bool) error {
	m.snapshot()
	return nil
}

func cp(b []byte) []byte { return append([]byte(nil), b...) }

func (m *recMgr) CreateMainConfig(content []byte) bool {
	m.files["nginx.conf"] = cp(content)
	return true
}

func (m *recMgr) CreateConfig(name string, content []byte) bool {
	m.files["conf.d/"+name+".conf"] = cp(content)
	return true
}
func (m *recMgr) DeleteConfig(name string) { delete(m.files, "conf.d/"+name+".conf") }
func (m *recMgr) CreateStreamConfig(name string, content []byte) bool {
	m.files["stream-conf.d/"+name+".conf"] = cp(content)
	return true
}
func (m *recMgr) DeleteStreamConfig(name string) { delete(m.files, "stream-conf.d/"+name+".conf") }
func (m *recMgr) CreateTLSPassthroughHostsConfig(content []byte) bool {
	m.files["tls-passthrough-hosts.conf"] = cp(content)
	return true
}

// ---------------------------------------------------------------- case

type Flags struct {
	Plus           bool `json:"plus"`
	TLSPassthrough bool `json:"tls_passthrough"`
	IPV6Disabled   bool `json:"ipv6_disabled"`
	Wildcard       bool `json:"wildcard"`
	DynSSL         bool `json:"dyn_ssl"`
	DynWeights     bool `json:"dyn_weights"`
	InternalRoutes bool `json:"internal_routes"`
	Latency        bool `json:"latency"`
	RejectHS       bool `json:"ssl_reject_handshake"`
	HTTP2          bool `json:"http2"`
	ProxyProtocol  bool `json:"proxy_protocol"`
	HSTS           bool `json:"hsts"`
	RealIP         bool `json:"real_ip"`
	Resolver       bool `json:"resolver"`
	MainConf       bool `json:"main_conf"` // also regenerate nginx.conf (UpdateConfig)
	Churn          bool `json:"churn"`     // delete and re-add one resource at the end
}

// Res is the summary of one generated resource (for classification and for reading a replay).
type Res struct {
	Kind      string            `json:"kind"` // ing | master | minion | vs | vsr | ts
	NS        string            `json:"ns"`
	Name      string            `json:"name"`
	Hosts     []string          `json:"hosts,omitempty"`
	Paths     []string          `json:"paths,omitempty"`
	Ann       map[string]string `json:"ann,omitempty"`
	Upstreams []string          `json:"upstreams,omitempty"`
	Routes    []string          `json:"routes,omitempty"` // VS: delegated routes ns/name per path
	Policies  []string          `json:"policies,omitempty"`
	TLS       string            `json:"tls,omitempty"`
	Listener  string            `json:"listener,omitempty"`
	Note      string            `json:"note,omitempty"`
}

type FileObs struct {
	Name  string `json:"name"`
	Text  string `json:"text,omitempty"`
	Bytes []int  `json:"bytes,omitempty"`
}

type Obs struct {
	Files    []FileObs `json:"files"`           // the final file set
	Old      []FileObs `json:"old,omitempty"`   // earlier versions of files that were on disk at some reload
	Snaps    [][]int   `json:"snaps,omitempty"` // the file set at each reload before the last: indexes into files ++ old
	Accepted []string  `json:"accepted"`
	Errors   []string  `json:"errors,omitempty"`
	Problems int       `json:"problems"`
	Panic    string    `json:"panic,omitempty"`
	Error    string    `json:"error,omitempty"`
}

type Case struct {
	ID    int               `json:"id"`
	Class string            `json:"class"`
	Seed  uint64            `json:"seed"`
	Flags Flags             `json:"flags"`
	Deps  map[string]string `json:"deps"` // svc:ns/name -> state, secret:ns/name -> state, policy:ns/name -> state
	Res   []Res             `json:"res"`
	// class "names": one identifier scheme applied to components
	K       int      `json:"k,omitempty"`       // class "payload": enumeration index
	Payload *Payload `json:"payload,omitempty"` // class "payload": the mutated leaf
	Scheme string   `json:"scheme,omitempty"`
	Args   []string `json:"args,omitempty"`
	Obs    Obs      `json:"obs"`
}

// ---------------------------------------------------------------- world

type world struct {
	allOK    bool // every Service ready, every Secret and Policy present and valid
	shared   bool // several resources of different kinds share one namespace/name and a small host set
	sns      string
	sname    string
	shosts   []string
	flags    Flags
	deps     map[string]string
	svcs     []*api_v1.Service
	slices   []*discovery_v1.EndpointSlice
	secrets  []*api_v1.Secret
	policies []*conf_v1.Policy
	gc       *conf_v1.GlobalConfiguration
	objs     []any // *networking.Ingress | *conf_v1.VirtualServer | *conf_v1.VirtualServerRoute | *conf_v1.TransportServer, in application order
	res      []Res
}

var (
	nsPool   = []string{"a", "a-b", "b", "ns1"}
	namePool = []string{"c", "b-c", "a", "a-b", "web", "c.d", "b"}
	hostPool = []string{"c.com", "b-c.com", "a.c.com", "x.example.com", "y.example.com", "b-c.example.com", "d.c.com"}
	svcPool  = []string{"svc", "svc-b", "b-svc", "c", "ext"}
	secPool  = []string{"tls", "tls-b", "jwk", "htpasswd", "ca", "apikey", "oidc", "license"}
	polPool  = []string{"rl", "rl-b", "acl", "jwt", "basic", "imtls", "emtls", "apikey", "b-rl"}
	upPool   = []string{"u", "u-1", "app", "b", "c-b", "b-c"}
	pathPool = []string{"/", "/a", "/a/b", "/tea", "/a-b", "/a_b", "/x.y", "/coffee", "/a/b/c"}
)

func ptr[T any](v T) *T { return &v }

func (w *world) dep(kind, ns, name string) string { return w.deps[kind+":"+ns+"/"+name] }

func genDeps(r *vh.Rng, w *world) {
	ip := 0
	for _, ns := range nsPool {
		for _, s := range svcPool {
			st := vh.Pick(r, []string{"missing", "noendpoints", "ready", "ready", "ready"})
			if s == "ext" {
				st = vh.Pick(r, []string{"missing", "external", "external"})
			}
			if w.allOK {
				st = "ready"
				if s == "ext" {
					st = "external"
				}
			}
			w.deps["svc:"+ns+"/"+s] = st
			if st == "missing" {
				continue
			}
			svc := &api_v1.Service{
				ObjectMeta: meta_v1.ObjectMeta{Name: s, Namespace: ns},
				Spec: api_v1.ServiceSpec{
					ClusterIP: fmt.Sprintf("10.0.%d.%d", len(w.svcs)/200, len(w.svcs)%200+1),
					Ports: []api_v1.ServicePort{
						{Name: "http", Port: 80, TargetPort: intstr.FromInt(8080)},
						{Name: "alt", Port: 8080, TargetPort: intstr.FromInt(8080)},
						{Name: "dns", Port: 5353, TargetPort: intstr.FromInt(5353)},
					},
				},
			}
			if st == "external" {
				svc.Spec.Type = api_v1.ServiceTypeExternalName
				svc.Spec.ExternalName = "ext." + ns + ".example.org"
				svc.Spec.ClusterIP = ""
			}
			w.svcs = append(w.svcs, svc)
			if st == "ready" {
				n := 1 + r.Intn(2)
				var eps []discovery_v1.Endpoint
				for i := 0; i < n; i++ {
					ip++
					eps = append(eps, discovery_v1.Endpoint{Addresses: []string{fmt.Sprintf("10.1.%d.%d", ip/250, ip%250+1)},
						Conditions: discovery_v1.EndpointConditions{Ready: ptr(true)}})
				}
				w.slices = append(w.slices, &discovery_v1.EndpointSlice{
					ObjectMeta: meta_v1.ObjectMeta{Name: s + "-x1", Namespace: ns, Labels: map[string]string{"kubernetes.io/service-name": s}},
					Ports:      []discovery_v1.EndpointPort{{Port: ptr(int32(8080))}, {Port: ptr(int32(5353))}},
					Endpoints:  eps,
				})
			}
		}
		for _, s := range secPool {
			st := vh.Pick(r, []string{"missing", "invalid", "wrongtype", "ok", "ok", "ok"})
			if w.allOK {
				st = "ok"
			}
			w.deps["secret:"+ns+"/"+s] = st
			if st == "missing" {
				continue
			}
			sec := &api_v1.Secret{ObjectMeta: meta_v1.ObjectMeta{Name: s, Namespace: ns}}
			switch s {
			case "tls", "tls-b":
				sec.Type = api_v1.SecretTypeTLS
				sec.Data = map[string][]byte{"tls.crt": validCert, "tls.key": validKey}
			case "jwk":
				sec.Type = secrets.SecretTypeJWK
				sec.Data = map[string][]byte{"jwk": []byte(`{"keys":[]}`)}
			case "htpasswd":
				sec.Type = secrets.SecretTypeHtpasswd
				sec.Data = map[string][]byte{"htpasswd": []byte("u:$apr1$x$y\n")}
			case "ca":
				sec.Type = secrets.SecretTypeCA
				sec.Data = map[string][]byte{"ca.crt": validCert}
			case "apikey":
				sec.Type = secrets.SecretTypeAPIKey
				sec.Data = map[string][]byte{"client1": []byte("key1"), "client-2": []byte("key2")}
			case "oidc":
				sec.Type = secrets.SecretTypeOIDC
				sec.Data = map[string][]byte{"client-secret": []byte("secret")}
			case "license":
				sec.Type = secrets.SecretTypeLicense
				sec.Data = map[string][]byte{"license.jwt": []byte("eyJhbGciOi.J9.x")}
			}
			if st == "invalid" {
				for k := range sec.Data {
					sec.Data[k] = []byte("garbage")
				}
				if s == "jwk" || s == "htpasswd" || s == "apikey" {
					sec.Data = map[string][]byte{"other": []byte("x")}
				}
			}
			if st == "wrongtype" {
				sec.Type = api_v1.SecretTypeOpaque
			}
			w.secrets = append(w.secrets, sec)
		}
		for _, p := range polPool {
			st := vh.Pick(r, []string{"missing", "invalid", "ok", "ok", "ok"})
			if w.allOK {
				st = "ok"
			}
			w.deps["policy:"+ns+"/"+p] = st
			if st == "missing" {
				continue
			}
			pol := &conf_v1.Policy{ObjectMeta: meta_v1.ObjectMeta{Name: p, Namespace: ns}}
			switch p {
			case "rl", "rl-b", "b-rl":
				pol.Spec.RateLimit = &conf_v1.RateLimit{Rate: vh.Pick(r, []string{"10r/s", "100r/m"}), Key: "${binary_remote_addr}", ZoneSize: "10M"}
				if r.Chance(1, 3) {
					pol.Spec.RateLimit.Burst = ptr(5)
					pol.Spec.RateLimit.NoDelay = ptr(true)
					pol.Spec.RateLimit.RejectCode = ptr(429)
					pol.Spec.RateLimit.LogLevel = "warn"
					pol.Spec.RateLimit.DryRun = ptr(r.Bool())
				}
				if r.Chance(1, 4) {
					pol.Spec.RateLimit.Scale = true
				}
			case "acl":
				if r.Bool() {
					pol.Spec.AccessControl = &conf_v1.AccessControl{Allow: []string{"10.0.0.0/8", "127.0.0.1"}}
				} else {
					pol.Spec.AccessControl = &conf_v1.AccessControl{Deny: []string{"192.168.0.0/16"}}
				}
			case "jwt":
				pol.Spec.JWTAuth = &conf_v1.JWTAuth{Realm: "My API", Secret: "jwk"}
				if r.Chance(1, 3) {
					pol.Spec.JWTAuth.Token = "$http_token"
				}
				if w.flags.Plus && r.Chance(1, 2) {
					pol.Spec.JWTAuth = &conf_v1.JWTAuth{Realm: "My API", JwksURI: "https://idp.example.com/keys", KeyCache: "1h"}
				}
			case "basic":
				pol.Spec.BasicAuth = &conf_v1.BasicAuth{Realm: "My Realm", Secret: "htpasswd"}
			case "imtls":
				pol.Spec.IngressMTLS = &conf_v1.IngressMTLS{ClientCertSecret: "ca", VerifyClient: vh.Pick(r, []string{"on", "optional", ""}), VerifyDepth: ptr(2)}
			case "emtls":
				pol.Spec.EgressMTLS = &conf_v1.EgressMTLS{TLSSecret: "tls", TrustedCertSecret: "ca", VerifyServer: r.Bool(), ServerName: r.Bool(), SSLName: "up.example.com"}
			case "apikey":
				pol.Spec.APIKey = &conf_v1.APIKey{ClientSecret: "apikey", SuppliedIn: &conf_v1.SuppliedIn{Header: []string{"X-API-Key"}, Query: []string{"apikey"}}}
			}
			if st == "invalid" {
				switch {
				case pol.Spec.RateLimit != nil:
					pol.Spec.RateLimit.Rate = "fast"
				case pol.Spec.AccessControl != nil:
					pol.Spec.AccessControl = &conf_v1.AccessControl{Allow: []string{"not-an-ip"}}
				case pol.Spec.JWTAuth != nil:
					pol.Spec.JWTAuth.Realm = "$bad\""
				case pol.Spec.BasicAuth != nil:
					pol.Spec.BasicAuth.Secret = "Bad_Name"
				case pol.Spec.IngressMTLS != nil:
					pol.Spec.IngressMTLS.VerifyClient = "maybe"
				case pol.Spec.EgressMTLS != nil:
					pol.Spec.EgressMTLS.SSLName = "bad name"
				case pol.Spec.APIKey != nil:
					pol.Spec.APIKey.SuppliedIn = &conf_v1.SuppliedIn{}
				}
			}
			w.policies = append(w.policies, pol)
		}
	}
}

func genFlags(r *vh.Rng) Flags {
	return Flags{
		Plus: r.Bool(), TLSPassthrough: r.Chance(1, 2), IPV6Disabled: r.Chance(1, 4), Wildcard: r.Chance(1, 4),
		DynSSL: r.Chance(1, 3), DynWeights: r.Chance(1, 2), InternalRoutes: r.Chance(1, 8), Latency: r.Chance(1, 6),
		RejectHS: r.Chance(1, 3), HTTP2: r.Chance(1, 3), ProxyProtocol: r.Chance(1, 6), HSTS: r.Chance(1, 5),
		RealIP: r.Chance(1, 6), Resolver: r.Chance(1, 3), MainConf: r.Chance(1, 3), Churn: r.Chance(1, 3),
	}
}

func backend(svc string, port int32, named bool) networking.IngressBackend {
	b := networking.IngressBackend{Service: &networking.IngressServiceBackend{Name: svc}}
	if named {
		b.Service.Port.Name = "http"
	} else {
		b.Service.Port.Number = port
	}
	return b
}

func pickPaths(r *vh.Rng, n int) []string {
	seen := map[string]bool{}
	var out []string
	for len(out) < n {
		p := vh.Pick(r, pathPool)
		if !seen[p] {
			seen[p] = true
			out = append(out, p)
		}
	}
	return out
}

func ingAnnotations(r *vh.Rng, fl Flags, svcsUsed []string, minion bool) map[string]string {
	a := map[string]string{}
	add := func(num, den int, k, v string) {
		if r.Chance(num, den) {
			a[k] = v
		}
	}
	add(1, 5, "nginx.org/lb-method", vh.Pick(r, []string{"round_robin", "least_conn", "ip_hash", "random two least_conn", "hash $request_id consistent"}))
	add(1, 6, "nginx.org/proxy-connect-timeout", "30s")
	add(1, 6, "nginx.org/proxy-read-timeout", "20s")
	add(1, 8, "nginx.org/client-max-body-size", "4m")
	add(1, 8, "nginx.org/proxy-buffering", vh.Pick(r, []string{"true", "false"}))
	add(1, 8, "nginx.org/proxy-buffers", "4 8k")
	add(1, 8, "nginx.org/proxy-buffer-size", "8k")
	add(1, 8, "nginx.org/proxy-max-temp-file-size", "1024m")
	add(1, 8, "nginx.org/upstream-zone-size", vh.Pick(r, []string{"512k", "0"}))
	add(1, 8, "nginx.org/keepalive", "16")
	add(1, 8, "nginx.org/max-fails", "3")
	add(1, 8, "nginx.org/max-conns", "10")
	add(1, 8, "nginx.org/fail-timeout", "15s")
	add(1, 6, "nginx.org/websocket-services", svcsUsed[0])
	add(1, 6, "nginx.org/ssl-services", svcsUsed[len(svcsUsed)-1])
	add(1, 6, "nginx.org/rewrites", "serviceName="+svcsUsed[0]+" rewrite=/beans/")
	add(1, 6, "nginx.org/path-regex", vh.Pick(r, []string{"case_sensitive", "case_insensitive", "exact"}))
	add(1, 8, "nginx.org/use-cluster-ip", "true")
	// the auth annotations may name an existing, valid Secret of ANY supported type
	authSecret := func(usual string) string {
		if r.Chance(1, 3) {
			return vh.Pick(r, secPool)
		}
		return usual
	}
	add(1, 5, "nginx.org/basic-auth-secret", authSecret("htpasswd"))
	add(1, 6, "nginx.org/basic-auth-realm", "Cafe App")
	if r.Chance(1, 4) {
		a["nginx.org/limit-req-rate"] = vh.Pick(r, []string{"10r/s", "200r/m"})
		add(1, 2, "nginx.org/limit-req-key", "${binary_remote_addr}")
		add(1, 2, "nginx.org/limit-req-zone-size", "10m")
		add(1, 2, "nginx.org/limit-req-burst", "20")
		add(1, 3, "nginx.org/limit-req-no-delay", "true")
		add(1, 3, "nginx.org/limit-req-dry-run", "true")
		add(1, 3, "nginx.org/limit-req-log-level", "notice")
		add(1, 3, "nginx.org/limit-req-reject-code", "429")
		add(1, 4, "nginx.org/limit-req-scale", "true")
	}
	if fl.HTTP2 {
		add(1, 6, "nginx.org/grpc-services", svcsUsed[0])
	}
	if !minion {
		add(1, 8, "nginx.org/proxy-hide-headers", "X-Powered-By,Server")
		add(1, 8, "nginx.org/proxy-pass-headers", "Date")
		add(1, 6, "nginx.org/redirect-to-https", "true")
		add(1, 8, "ingress.kubernetes.io/ssl-redirect", "false")
		add(1, 8, "nginx.org/hsts", "true")
		add(1, 8, "nginx.org/server-tokens", vh.Pick(r, []string{"true", "false"}))
		add(1, 10, "nginx.org/listen-ports", "8080,9090")
		add(1, 10, "nginx.org/listen-ports-ssl", "8443")
		add(1, 10, "nginx.org/proxy-set-headers", "X-Forwarded-ABC,X-Val: abc")
	}
	if fl.Plus {
		add(1, 5, "nginx.com/jwt-key", authSecret("jwk"))
		add(1, 6, "nginx.com/jwt-realm", "Cafe")
		add(1, 8, "nginx.com/jwt-token", "$cookie_auth_token")
		add(1, 8, "nginx.com/jwt-login-url", "https://login.example.com")
		add(1, 5, "nginx.com/health-checks", "true")
		if a["nginx.com/health-checks"] == "true" {
			add(1, 2, "nginx.com/health-checks-mandatory", "true")
			if a["nginx.com/health-checks-mandatory"] == "true" {
				add(1, 2, "nginx.com/health-checks-mandatory-queue", "10")
			}
		}
		add(1, 6, "nginx.com/sticky-cookie-services", "serviceName="+svcsUsed[0]+" srv_id expires=1h path=/")
		add(1, 8, "nginx.com/slow-start", "30s")
	}
	return a
}

func (w *world) addIngress(r *vh.Rng, ns, name string, hosts []string, kind string, paths []string) {
	ing := &networking.Ingress{
		ObjectMeta: meta_v1.ObjectMeta{Name: name, Namespace: ns, Annotations: map[string]string{}},
		Spec:       networking.IngressSpec{IngressClassName: ptr("nginx")},
	}
	var svcsUsed []string
	pt := networking.PathTypePrefix
	res := Res{Kind: kind, NS: ns, Name: name, Hosts: hosts}
	for _, h := range hosts {
		rule := networking.IngressRule{Host: h}
		if kind != "master" {
			rule.HTTP = &networking.HTTPIngressRuleValue{}
			for _, p := range paths {
				svc := vh.Pick(r, svcPool[:4])
				svcsUsed = append(svcsUsed, svc)
				ptc := pt
				if r.Chance(1, 5) {
					ptc = vh.Pick(r, []networking.PathType{networking.PathTypeExact, networking.PathTypeImplementationSpecific})
				}
				rule.HTTP.Paths = append(rule.HTTP.Paths, networking.HTTPIngressPath{Path: p, PathType: &ptc,
					Backend: backend(svc, vh.Pick(r, []int32{80, 8080}), r.Chance(1, 6))})
				res.Paths = append(res.Paths, p)
			}
		}
		ing.Spec.Rules = append(ing.Spec.Rules, rule)
	}
	if kind != "minion" && r.Chance(1, 3) {
		sec := vh.Pick(r, []string{"tls", "tls-b"})
		if r.Chance(1, 5) {
			sec = "" // wildcard / reject handshake path
		}
		ing.Spec.TLS = []networking.IngressTLS{{Hosts: hosts, SecretName: sec}}
		res.TLS = "secret=" + sec
	}
	if kind == "ing" && r.Chance(1, 6) {
		b := backend("svc", 80, false)
		ing.Spec.DefaultBackend = &b
		svcsUsed = append(svcsUsed, "svc")
	}
	if len(svcsUsed) == 0 {
		svcsUsed = []string{"svc"}
	}
	if kind == "master" {
		ing.Annotations = ingAnnotations(r, w.flags, svcsUsed, false)
		for _, k := range []string{"nginx.org/rewrites", "nginx.org/ssl-services", "nginx.org/grpc-services", "nginx.org/websocket-services", "nginx.com/sticky-cookie-services", "nginx.com/health-checks", "nginx.com/health-checks-mandatory", "nginx.com/health-checks-mandatory-queue"} {
			delete(ing.Annotations, k)
		}
		ing.Annotations["nginx.org/mergeable-ingress-type"] = "master"
	} else {
		ing.Annotations = ingAnnotations(r, w.flags, svcsUsed, kind == "minion")
		if kind == "minion" {
			ing.Annotations["nginx.org/mergeable-ingress-type"] = "minion"
		}
	}
	res.Ann = ing.Annotations
	w.objs = append(w.objs, ing)
	w.res = append(w.res, res)
}

func genUpstreams(r *vh.Rng, fl Flags, n int) []conf_v1.Upstream {
	seen := map[string]bool{}
	var ups []conf_v1.Upstream
	for len(ups) < n {
		nm := vh.Pick(r, upPool)
		if seen[nm] {
			continue
		}
		seen[nm] = true
		u := conf_v1.Upstream{Name: nm, Service: vh.Pick(r, svcPool[:4]), Port: vh.Pick(r, []uint16{80, 8080})}
		if r.Chance(1, 5) {
			u.LBMethod = vh.Pick(r, []string{"least_conn", "ip_hash", "random", "hash $request_uri", "round_robin"})
		}
		if r.Chance(1, 6) {
			u.MaxFails, u.MaxConns, u.FailTimeout = ptr(2), ptr(32), "10s"
		}
		if r.Chance(1, 6) {
			u.Keepalive = ptr(8)
		}
		if r.Chance(1, 6) {
			u.ProxyConnectTimeout, u.ProxyReadTimeout, u.ProxySendTimeout = "30s", "31s", "32s"
			u.ProxyNextUpstream, u.ProxyNextUpstreamTimeout, u.ProxyNextUpstreamTries = "error timeout", "5s", 3
		}
		if r.Chance(1, 8) {
			u.ProxyBuffering, u.ProxyBuffers, u.ProxyBufferSize = ptr(true), &conf_v1.UpstreamBuffers{Number: 4, Size: "8k"}, "8k"
			u.ClientMaxBodySize = "2m"
		}
		if r.Chance(1, 6) {
			u.TLS.Enable = true
		}
		if r.Chance(1, 8) {
			u.UseClusterIP = true
		}
		if r.Chance(1, 10) {
			u.Subselector = map[string]string{"version": "v1"}
		}
		if r.Chance(1, 10) {
			u.Service = "ext"
		}
		if fl.Plus {
			if r.Chance(1, 4) {
				u.HealthCheck = &conf_v1.HealthCheck{Enable: true, Path: "/healthz", Interval: "4s", Jitter: "1s", Fails: 2, Passes: 2,
					ConnectTimeout: "3s", ReadTimeout: "3s", SendTimeout: "3s", Headers: []conf_v1.Header{{Name: "Host", Value: "my.service"}},
					StatusMatch: vh.Pick(r, []string{"", "200-399", "! 500"}), Mandatory: r.Bool()}
				if u.HealthCheck.Mandatory {
					u.HealthCheck.Persistent = r.Bool()
				}
				if u.UseClusterIP {
					u.UseClusterIP = false
				}
			}
			if r.Chance(1, 6) {
				u.SessionCookie = &conf_v1.SessionCookie{Enable: true, Name: "srv_id", Path: "/", Expires: "1h", Domain: ".example.com", HTTPOnly: true, Secure: true}
			}
			if r.Chance(1, 8) {
				u.Queue = &conf_v1.UpstreamQueue{Size: 10, Timeout: "60s"}
			}
			if r.Chance(1, 8) {
				u.SlowStart = "10s"
			}
			if r.Chance(1, 8) {
				u.NTLM = true
			}
			if r.Chance(1, 8) {
				u.Backup, u.BackupPort = "ext", ptr(uint16(80))
			}
		}
		ups = append(ups, u)
	}
	return ups
}

// retHeavy makes genAction choose action.return far more often (routes with matches / splits:
// every return gets its own named location @return_<n>, numbered across the whole VirtualServer).
var retHeavy bool

func genAction(r *vh.Rng, ups []conf_v1.Upstream) *conf_v1.Action {
	k := r.Intn(8)
	if retHeavy && k >= 5 {
		k = 1
	}
	switch k {
	case 0:
		return &conf_v1.Action{Redirect: &conf_v1.ActionRedirect{URL: "http://www.nginx.com${request_uri}", Code: 301}}
	case 1:
		return &conf_v1.Action{Return: &conf_v1.ActionReturn{Code: 200, Type: "text/plain", Body: vh.Pick(r, []string{"Hello!", "a \\\"quoted\\\" body {x}; ${host}", "line\\n"}),
			Headers: []conf_v1.Header{{Name: "x-coffee", Value: "espresso"}}}}
	case 2:
		p := &conf_v1.ActionProxy{Upstream: vh.Pick(r, ups).Name}
		if r.Bool() {
			p.RewritePath = vh.Pick(r, []string{"/rewritten", "/$1", "/"})
		}
		if r.Bool() {
			p.RequestHeaders = &conf_v1.ProxyRequestHeaders{Pass: ptr(r.Bool()), Set: []conf_v1.Header{{Name: "My-Header", Value: "Value"}, {Name: "Client-Cert", Value: "${ssl_client_escaped_cert}"}}}
		}
		if r.Bool() {
			p.ResponseHeaders = &conf_v1.ProxyResponseHeaders{Hide: []string{"x-internal-version"}, Pass: []string{"Server"}, Ignore: []string{"Expires", "Set-Cookie"},
				Add: []conf_v1.AddHeader{{Header: conf_v1.Header{Name: "X-Header-Name", Value: "Value"}, Always: r.Bool()}}}
		}
		return &conf_v1.Action{Proxy: p}
	default:
		return &conf_v1.Action{Pass: vh.Pick(r, ups).Name}
	}
}

func genSplits(r *vh.Rng, ups []conf_v1.Upstream) []conf_v1.Split {
	var ws []int
	switch r.Intn(6) {
	case 0:
		ws = []int{100, 0} // a split with weight 0 is legal: its location is generated, it gets no traffic
	case 1:
		ws = []int{0, 0, 100}
	case 2:
		ws = []int{0, 100}
	case 3:
		ws = []int{50, 30, 20}
	default:
		ws = []int{90, 10}
	}
	var out []conf_v1.Split
	for _, wt := range ws {
		out = append(out, conf_v1.Split{Weight: wt, Action: genAction(r, ups)})
	}
	return out
}

func genPolicyRefs(r *vh.Rng, ns string) []conf_v1.PolicyReference {
	if !r.Chance(1, 3) {
		return nil
	}
	var out []conf_v1.PolicyReference
	seen := map[string]bool{}
	for i := 0; i < 1+r.Intn(2); i++ {
		p := conf_v1.PolicyReference{Name: vh.Pick(r, polPool)}
		if r.Chance(1, 3) {
			p.Namespace = vh.Pick(r, nsPool)
		}
		if seen[p.Namespace+"/"+p.Name] {
			continue
		}
		seen[p.Namespace+"/"+p.Name] = true
		out = append(out, p)
	}
	return out
}

func polNames(ps []conf_v1.PolicyReference) []string {
	var out []string
	for _, p := range ps {
		out = append(out, p.Namespace+"/"+p.Name)
	}
	return out
}

func genConditions(r *vh.Rng) []conf_v1.Condition {
	pool := []conf_v1.Condition{
		{Header: "x-version", Value: "v2"}, {Header: "x-canary", Value: "!yes"},
		{Cookie: "user", Value: vh.Pick(r, []string{"john", "!bob", "a\"b"})},
		{Argument: "v", Value: "2"}, {Argument: "debug", Value: "*on"},
		{Variable: "$request_method", Value: "POST"}, {Variable: "$scheme", Value: "!https"},
	}
	n := 1 + r.Intn(3)
	var out []conf_v1.Condition
	seen := map[int]bool{}
	for len(out) < n {
		i := r.Intn(len(pool))
		if !seen[i] {
			seen[i] = true
			out = append(out, pool[i])
		}
	}
	return out
}

func genRoute(r *vh.Rng, path string, ups []conf_v1.Upstream, ns string) conf_v1.Route {
	rt := conf_v1.Route{Path: path}
	switch r.Intn(6) {
	case 0:
		retHeavy = r.Bool()
		rt.Splits = genSplits(r, ups)
		retHeavy = false
	case 1, 2:
		// matches: 1-3 of them, each with an action or with splits; default = action or splits
		retHeavy = r.Chance(2, 3)
		nm := 1 + r.Intn(3)
		for i := 0; i < nm; i++ {
			m := conf_v1.Match{Conditions: genConditions(r)}
			if r.Bool() {
				m.Action = genAction(r, ups)
			} else {
				m.Splits = genSplits(r, ups)
			}
			rt.Matches = append(rt.Matches, m)
		}
		if r.Chance(1, 3) {
			rt.Splits = genSplits(r, ups)
		} else {
			rt.Action = genAction(r, ups)
		}
		retHeavy = false
	default:
		rt.Action = genAction(r, ups)
	}
	if r.Chance(1, 4) {
		rt.ErrorPages = []conf_v1.ErrorPage{{Codes: []int{502, 503}, Return: &conf_v1.ErrorPageReturn{ActionReturn: conf_v1.ActionReturn{Code: 200, Type: "application/json", Body: "{\\\"message\\\": \\\"unavailable ${upstream_status}\\\"}",
			Headers: []conf_v1.Header{{Name: "x-debug", Value: "${upstream_status}"}}}}}}
		if r.Bool() {
			rt.ErrorPages = append(rt.ErrorPages, conf_v1.ErrorPage{Codes: []int{404}, Redirect: &conf_v1.ErrorPageRedirect{ActionRedirect: conf_v1.ActionRedirect{URL: "http://nginx.com/${status}", Code: 302}}})
		}
	}
	rt.Policies = genPolicyRefs(r, ns)
	return rt
}

var vsPathPool = []string{"/", "/a", "/a/b", "/tea", "/coffee", "=/exact", "~ ^/re/.*\\.jpg$", "~* /ci/(.*)", "/a-b", "/x_y"}

func (w *world) addVS(r *vh.Rng, ns, name, host string, vsrs []string) {
	vs := &conf_v1.VirtualServer{ObjectMeta: meta_v1.ObjectMeta{Name: name, Namespace: ns},
		Spec: conf_v1.VirtualServerSpec{Host: host, IngressClass: "nginx"}}
	res := Res{Kind: "vs", NS: ns, Name: name, Hosts: []string{host}}
	vs.Spec.Upstreams = genUpstreams(r, w.flags, 1+r.Intn(3))
	for _, u := range vs.Spec.Upstreams {
		res.Upstreams = append(res.Upstreams, u.Name)
	}
	if r.Chance(1, 3) {
		vs.Spec.TLS = &conf_v1.TLS{Secret: vh.Pick(r, []string{"tls", "tls-b", ""})}
		if r.Bool() {
			vs.Spec.TLS.Redirect = &conf_v1.TLSRedirect{Enable: true, Code: ptr(301), BasedOn: vh.Pick(r, []string{"scheme", "x-forwarded-proto", ""})}
		}
		res.TLS = "secret=" + vs.Spec.TLS.Secret
	}
	if r.Chance(1, 8) {
		vs.Spec.Listener = &conf_v1.VirtualServerListener{HTTP: "http-8083", HTTPS: "https-8443"}
		res.Listener = "http-8083/https-8443"
	}
	if r.Chance(1, 8) {
		vs.Spec.Gunzip = true
	}
	if w.flags.HTTP2 && vs.Spec.TLS != nil && vs.Spec.TLS.Secret != "" && r.Chance(1, 2) {
		// a gRPC upstream (needs http2 + TLS termination), optionally with a gRPC health check without a port
		u := &vs.Spec.Upstreams[0]
		u.Type = "grpc"
		u.HealthCheck, u.SessionCookie, u.NTLM = nil, nil, false
		if w.flags.Plus && r.Chance(2, 3) {
			u.HealthCheck = &conf_v1.HealthCheck{Enable: true, Interval: "5s", Jitter: "1s", Fails: 1, Passes: 1, GRPCStatus: ptr(12), GRPCService: "grpc.health.v1.Health"}
			if r.Chance(1, 3) {
				u.HealthCheck.Port = 50051
			}
			u.UseClusterIP = false
		}
	}
	vs.Spec.Policies = genPolicyRefs(r, ns)
	res.Policies = polNames(vs.Spec.Policies)
	seen := map[string]bool{}
	nroutes := 1 + r.Intn(3)
	for i := 0; i < nroutes; i++ {
		p := vh.Pick(r, vsPathPool)
		if seen[p] {
			continue
		}
		seen[p] = true
		rt := genRoute(r, p, vs.Spec.Upstreams, ns)
		res.Paths = append(res.Paths, p)
		res.Policies = append(res.Policies, polNames(rt.Policies)...)
		vs.Spec.Routes = append(vs.Spec.Routes, rt)
	}
	for i, ref := range vsrs {
		p := []string{"/vsr1", "/vsr2", "/vsr1/deeper"}[i%3]
		drt := conf_v1.Route{Path: p, Route: ref}
		if r.Chance(1, 2) {
			// errorPages (and policies) of a delegating route are inherited by every subroute of the
			// referenced VirtualServerRoute that has none of its own; return-type pages become named
			// locations @error_page_<route>_<i>, numbered across the whole server
			drt.ErrorPages = []conf_v1.ErrorPage{{Codes: []int{502, 503}, Return: &conf_v1.ErrorPageReturn{ActionReturn: conf_v1.ActionReturn{Code: 200, Type: "text/plain", Body: "sorry"}}}}
			if r.Bool() {
				drt.ErrorPages = append(drt.ErrorPages, conf_v1.ErrorPage{Codes: []int{404}, Return: &conf_v1.ErrorPageReturn{ActionReturn: conf_v1.ActionReturn{Code: 404, Body: "nope",
					Headers: []conf_v1.Header{{Name: "x-code", Value: "${upstream_status}"}}}}})
			}
			if r.Chance(1, 3) {
				drt.ErrorPages = append(drt.ErrorPages, conf_v1.ErrorPage{Codes: []int{500}, Redirect: &conf_v1.ErrorPageRedirect{ActionRedirect: conf_v1.ActionRedirect{URL: "http://nginx.com/${status}", Code: 302}}})
			}
			res.Note += " delegating-errorPages"
		}
		if r.Chance(1, 4) {
			drt.Policies = genPolicyRefs(r, ns)
			res.Policies = append(res.Policies, polNames(drt.Policies)...)
		}
		vs.Spec.Routes = append(vs.Spec.Routes, drt)
		res.Paths = append(res.Paths, p)
		res.Routes = append(res.Routes, p+"->"+ref)
	}
	if len(vsrs) > 0 && r.Bool() {
		// delegating routes anywhere among the routes of the VirtualServer (the indexes of the named
		// locations follow the order of the routes)
		for a := len(vs.Spec.Routes) - 1; a > 0; a-- {
			b := r.Intn(a + 1)
			vs.Spec.Routes[a], vs.Spec.Routes[b] = vs.Spec.Routes[b], vs.Spec.Routes[a]
		}
	}
	w.objs = append(w.objs, vs)
	w.res = append(w.res, res)
}

func (w *world) addVSR(r *vh.Rng, ns, name, host string, prefixes []string) {
	vsr := &conf_v1.VirtualServerRoute{ObjectMeta: meta_v1.ObjectMeta{Name: name, Namespace: ns},
		Spec: conf_v1.VirtualServerRouteSpec{Host: host, IngressClass: "nginx"}}
	vsr.Spec.Upstreams = genUpstreams(r, w.flags, 1+r.Intn(2))
	res := Res{Kind: "vsr", NS: ns, Name: name, Hosts: []string{host}}
	for _, u := range vsr.Spec.Upstreams {
		res.Upstreams = append(res.Upstreams, u.Name)
	}
	for _, pre := range prefixes {
		for _, suf := range [][]string{{""}, {"", "/x"}, {"/x", "/y/z"}}[r.Intn(3)] {
			rt := genRoute(r, pre+suf, vsr.Spec.Upstreams, ns)
			vsr.Spec.Subroutes = append(vsr.Spec.Subroutes, rt)
			res.Paths = append(res.Paths, pre+suf)
			res.Policies = append(res.Policies, polNames(rt.Policies)...)
		}
	}
	w.objs = append(w.objs, vsr)
	w.res = append(w.res, res)
}

func (w *world) addTS(r *vh.Rng, ns, name string) {
	ts := &conf_v1.TransportServer{ObjectMeta: meta_v1.ObjectMeta{Name: name, Namespace: ns},
		Spec: conf_v1.TransportServerSpec{IngressClass: "nginx"}}
	res := Res{Kind: "ts", NS: ns, Name: name}
	kind := r.Intn(4)
	switch kind {
	case 0:
		ts.Spec.Listener = conf_v1.TransportServerListener{Name: "tls-passthrough", Protocol: "TLS_PASSTHROUGH"}
		ts.Spec.Host = vh.Pick(r, hostPool)
		res.Hosts = []string{ts.Spec.Host}
	case 1:
		ts.Spec.Listener = conf_v1.TransportServerListener{Name: "udp-1", Protocol: "UDP"}
		ts.Spec.UpstreamParameters = &conf_v1.UpstreamParameters{UDPRequests: ptr(1), UDPResponses: ptr(1)}
	default:
		ts.Spec.Listener = conf_v1.TransportServerListener{Name: vh.Pick(r, []string{"tcp-1", "tcp-2"}), Protocol: "TCP"}
		if r.Chance(1, 3) {
			ts.Spec.TLS = &conf_v1.TransportServerTLS{Secret: vh.Pick(r, []string{"tls", "tls-b"})}
			res.TLS = "secret=" + ts.Spec.TLS.Secret
			if r.Bool() {
				ts.Spec.Host = vh.Pick(r, hostPool)
				res.Hosts = []string{ts.Spec.Host}
			}
		}
	}
	res.Listener = ts.Spec.Listener.Name
	seen := map[string]bool{}
	n := 1 + r.Intn(2)
	for len(ts.Spec.Upstreams) < n {
		nm := vh.Pick(r, upPool)
		if seen[nm] {
			continue
		}
		seen[nm] = true
		u := conf_v1.TransportServerUpstream{Name: nm, Service: vh.Pick(r, svcPool[:4]), Port: vh.Pick(r, []int{5353, 8080})}
		if r.Chance(1, 4) {
			u.MaxFails, u.MaxConns, u.FailTimeout = ptr(2), ptr(7), "12s"
		}
		if r.Chance(1, 4) {
			u.LoadBalancingMethod = vh.Pick(r, []string{"least_conn", "random", "hash $remote_addr", "hash $remote_addr consistent"})
		}
		if w.flags.Plus && r.Chance(1, 3) {
			u.HealthCheck = &conf_v1.TransportServerHealthCheck{Enabled: true, Timeout: "30s", Jitter: "2s", Port: 8080, Interval: "10s", Passes: 2, Fails: 2}
			if r.Bool() {
				u.HealthCheck.Match = &conf_v1.TransportServerMatch{Send: "GET / HTTP/1.0\\r\\nHost: localhost\\r\\n\\r\\n", Expect: vh.Pick(r, []string{"~*200 OK", "ok", "~* 200 OK", "~ ^ok", "~*  ^250 OK"})}
				if r.Chance(1, 3) {
					u.HealthCheck.Match.Send = vh.Pick(r, []string{"ping", "~ not a modifier", "EHLO x\\r\\n"})
				}
			}
		}
		if w.flags.Plus && r.Chance(1, 8) {
			u.Backup, u.BackupPort = "ext", ptr(uint16(5353))
		}
		ts.Spec.Upstreams = append(ts.Spec.Upstreams, u)
		res.Upstreams = append(res.Upstreams, nm)
	}
	ts.Spec.Action = &conf_v1.TransportServerAction{Pass: ts.Spec.Upstreams[0].Name}
	if r.Chance(1, 3) {
		if ts.Spec.UpstreamParameters == nil {
			ts.Spec.UpstreamParameters = &conf_v1.UpstreamParameters{}
		}
		ts.Spec.UpstreamParameters.ConnectTimeout = "60s"
		ts.Spec.UpstreamParameters.NextUpstream = true
		ts.Spec.UpstreamParameters.NextUpstreamTimeout = "50s"
		ts.Spec.UpstreamParameters.NextUpstreamTries = 2
	}
	if r.Chance(1, 3) {
		ts.Spec.SessionParameters = &conf_v1.SessionParameters{Timeout: "50s"}
	}
	w.objs = append(w.objs, ts)
	w.res = append(w.res, res)
}

func genGC() *conf_v1.GlobalConfiguration {
	return &conf_v1.GlobalConfiguration{ObjectMeta: meta_v1.ObjectMeta{Name: "nginx-configuration", Namespace: "nginx-ingress"},
		Spec: conf_v1.GlobalConfigurationSpec{Listeners: []conf_v1.Listener{
			{Name: "tcp-1", Port: 5353, Protocol: "TCP"}, {Name: "udp-1", Port: 5353, Protocol: "UDP"}, {Name: "tcp-2", Port: 7000, Protocol: "TCP"},
			{Name: "http-8083", Port: 8083, Protocol: "HTTP"}, {Name: "https-8443", Port: 8443, Protocol: "HTTP", Ssl: true}}}}
}

// nameKey picks (ns, name) pairs; the pools are chosen so that ns-name and ns_name concatenations
// of different pairs coincide often (a-b/c vs a/b-c).
func nameKey(r *vh.Rng) (string, string) { return vh.Pick(r, nsPool), vh.Pick(r, namePool) }

func genWorld(r *vh.Rng, class string) *world {
	w := &world{deps: map[string]string{}}
	w.flags = genFlags(r)
	genDeps(r.Fork(1), w)
	w.gc = genGC()
	switch class {
	case "set":
		n := 2 + r.Intn(4)
		used := map[string]bool{}
		if r.Chance(1, 3) {
			// resources of different kinds with the SAME namespace/name that compete for a small host set
			w.shared = true
			w.sns, w.sname = nameKey(r)
			w.shosts = []string{vh.Pick(r, hostPool), vh.Pick(r, hostPool)}
		}
		for i := 0; i < n; i++ {
			ns, name := nameKey(r)
			if w.shared && r.Chance(2, 3) {
				ns, name = w.sns, w.sname
			}
			k := r.Intn(10)
			kind := []string{"ing", "ing", "ing", "mm", "vs", "vs", "vs", "vsvsr", "ts", "ts"}[k]
			if used[kind[:2]+ns+"/"+name] {
				continue
			}
			used[kind[:2]+ns+"/"+name] = true
			host := vh.Pick(r, hostPool)
			if w.shared && r.Chance(2, 3) {
				host = vh.Pick(r, w.shosts)
			}
			switch kind {
			case "ing":
				hosts := []string{host}
				nh := []int{1, 1, 1, 1, 1, 1, 2, 2, 2, 3}[r.Intn(10)]
				for len(hosts) < nh {
					h2 := vh.Pick(r, hostPool)
					dup := false
					for _, h := range hosts {
						dup = dup || h == h2
					}
					if !dup {
						hosts = append(hosts, h2)
					}
				}
				w.addIngress(r, ns, name, hosts, "ing", pickPaths(r, 1+r.Intn(3)))
			case "mm":
				w.addIngress(r, ns, name, []string{host}, "master", nil)
				paths := pickPaths(r, 3)
				nm := 1 + r.Intn(2)
				for j := 0; j < nm; j++ {
					mns := ns
					if r.Chance(1, 3) {
						mns = vh.Pick(r, nsPool)
					}
					w.addIngress(r, mns, name+"-m"+fmt.Sprint(j), []string{host}, "minion", paths[j:j+1+r.Intn(2-j+1)%2])
				}
			case "vs":
				w.addVS(r, ns, name, host, nil)
			case "vsvsr":
				// keys = the referenced VirtualServerRoutes (ns/name), refs = the references as written in the
				// VirtualServer: a route of the VirtualServer's own namespace may be written without namespace.
				// In dup mode the first VirtualServerRoute is referenced a second time under the nested prefix
				// /vsr1/deeper, by either spelling (it must be attached once: fix 596022d).
				nv := 1 + r.Intn(2)
				dup := r.Chance(1, 3)
				var keys []string
				for j := 0; j < nv || (dup && j < 2); j++ {
					vns := ns
					if r.Chance(1, 2) && !(dup && j == 0 && r.Bool()) {
						vns = vh.Pick(r, nsPool)
					}
					k := vns + "/" + vh.Pick(r, namePool)
					if j == 1 && k == keys[0] {
						k = vns + "/" + keys[0][strings.Index(keys[0], "/")+1:] + "-2"
					}
					keys = append(keys, k)
				}
				if dup {
					keys = append(keys[:2], keys[0])
				}
				var refs []string
				for _, k := range keys {
					if strings.HasPrefix(k, ns+"/") && r.Bool() {
						k = k[len(ns)+1:]
					}
					refs = append(refs, k)
				}
				w.addVS(r, ns, name, host, refs)
				for j, ref := range keys {
					parts := strings.SplitN(ref, "/", 2)
					if used["vr"+ref] {
						continue
					}
					used["vr"+ref] = true
					pre := []string{"/vsr1", "/vsr2", "/vsr1/deeper"}[j%3]
					if dup && j == 0 {
						pre = "/vsr1/deeper" // valid under /vsr1 and under /vsr1/deeper
					}
					w.addVSR(r, parts[0], parts[1], host, []string{pre})
				}
			case "ts":
				w.addTS(r, ns, name)
			}
		}
		// creation times (few distinct values, so ties happen) and UIDs decide who wins a host
		for i, o := range w.objs {
			ts := meta_v1.Unix(int64(1700000000+60*r.Intn(4)), 0)
			uid := types.UID(fmt.Sprintf("uid-%02d-%d", r.Intn(50), i))
			switch x := o.(type) {
			case *networking.Ingress:
				x.CreationTimestamp, x.UID = ts, uid
			case *conf_v1.VirtualServer:
				x.CreationTimestamp, x.UID = ts, uid
			case *conf_v1.VirtualServerRoute:
				x.CreationTimestamp, x.UID = ts, uid
			case *conf_v1.TransportServer:
				x.CreationTimestamp, x.UID = ts, uid
			}
		}
		// random application order
		for i := len(w.objs) - 1; i > 0; i-- {
			j := r.Intn(i + 1)
			w.objs[i], w.objs[j] = w.objs[j], w.objs[i]
		}
	default:
		genWitness(r, w, class)
	}
	return w
}

// ---------------------------------------------------------------- witnesses of the known findings

func simpleIngress(ns, name, host string, paths []string, svc string, ann map[string]string) *networking.Ingress {
	pt := networking.PathTypePrefix
	ing := &networking.Ingress{ObjectMeta: meta_v1.ObjectMeta{Name: name, Namespace: ns, Annotations: ann},
		Spec: networking.IngressSpec{IngressClassName: ptr("nginx")}}
	rule := networking.IngressRule{Host: host, IngressRuleValue: networking.IngressRuleValue{HTTP: &networking.HTTPIngressRuleValue{}}}
	for _, p := range paths {
		rule.HTTP.Paths = append(rule.HTTP.Paths, networking.HTTPIngressPath{Path: p, PathType: &pt, Backend: backend(svc, 80, false)})
	}
	ing.Spec.Rules = []networking.IngressRule{rule}
	return ing
}

// forceReady makes the Service ns/name exist with one ready endpoint whatever genDeps drew.
func forceReady(w *world, ns, name string) {
	w.deps["svc:"+ns+"/"+name] = "ready"
	var svcs []*api_v1.Service
	for _, s := range w.svcs {
		if !(s.Namespace == ns && s.Name == name) {
			svcs = append(svcs, s)
		}
	}
	var sl []*discovery_v1.EndpointSlice
	for _, s := range w.slices {
		if !(s.Namespace == ns && s.Labels["kubernetes.io/service-name"] == name) {
			sl = append(sl, s)
		}
	}
	svcs = append(svcs, &api_v1.Service{ObjectMeta: meta_v1.ObjectMeta{Name: name, Namespace: ns},
		Spec: api_v1.ServiceSpec{ClusterIP: "10.0.9.9", Ports: []api_v1.ServicePort{
			{Name: "http", Port: 80, TargetPort: intstr.FromInt(8080)}, {Name: "alt", Port: 8080, TargetPort: intstr.FromInt(8080)}}}})
	sl = append(sl, &discovery_v1.EndpointSlice{
		ObjectMeta: meta_v1.ObjectMeta{Name: name + "-w", Namespace: ns, Labels: map[string]string{"kubernetes.io/service-name": name}},
		Ports:      []discovery_v1.EndpointPort{{Port: ptr(int32(8080))}},
		Endpoints:  []discovery_v1.Endpoint{{Addresses: []string{"10.9.9.9"}, Conditions: discovery_v1.EndpointConditions{Ready: ptr(true)}}}})
	w.svcs, w.slices = svcs, sl
}

func genWitness(r *vh.Rng, w *world, class string) {
	w.flags.MainConf, w.flags.Churn = false, false
	switch class {
	case "w-ingress-upstream-name": // F07
		w.objs = append(w.objs, simpleIngress("ns1", "a", "b-c.com", []string{"/"}, "svc", nil), simpleIngress("ns1", "a-b", "c.com", []string{"/"}, "svc", nil))
		w.res = append(w.res, Res{Kind: "ing", NS: "ns1", Name: "a", Hosts: []string{"b-c.com"}, Paths: []string{"/"}},
			Res{Kind: "ing", NS: "ns1", Name: "a-b", Hosts: []string{"c.com"}, Paths: []string{"/"}})
	case "w-ingress-path-brace": // F06
		p := vh.Pick(r, []string{"/{", "/a{1,3}", "/a{1"})
		w.objs = append(w.objs, simpleIngress("a", "web", "x.example.com", []string{p, "/ok"}, "svc", nil))
		w.res = append(w.res, Res{Kind: "ing", NS: "a", Name: "web", Hosts: []string{"x.example.com"}, Paths: []string{p, "/ok"}})
	case "w-ts-maxconns": // F11
		ts := &conf_v1.TransportServer{ObjectMeta: meta_v1.ObjectMeta{Name: "web", Namespace: "a"},
			Spec: conf_v1.TransportServerSpec{IngressClass: "nginx", Listener: conf_v1.TransportServerListener{Name: "tcp-1", Protocol: "TCP"},
				Upstreams: []conf_v1.TransportServerUpstream{{Name: "u", Service: "svc", Port: 8080, MaxConns: ptr(-1 - r.Intn(3))}},
				Action:    &conf_v1.TransportServerAction{Pass: "u"}}}
		forceReady(w, "a", "svc")
		w.objs = append(w.objs, ts)
		w.res = append(w.res, Res{Kind: "ts", NS: "a", Name: "web", Upstreams: []string{"u"}, Listener: "tcp-1", Note: fmt.Sprintf("maxConns=%d", *ts.Spec.Upstreams[0].MaxConns)})
	case "w-vsr-twice": // F12
		vs := &conf_v1.VirtualServer{ObjectMeta: meta_v1.ObjectMeta{Name: "web", Namespace: "a"},
			Spec: conf_v1.VirtualServerSpec{Host: "x.example.com", IngressClass: "nginx",
				Routes: []conf_v1.Route{{Path: "/a", Route: "a/r"}, {Path: "/a/b", Route: "a/r"}}}}
		vsr := &conf_v1.VirtualServerRoute{ObjectMeta: meta_v1.ObjectMeta{Name: "r", Namespace: "a"},
			Spec: conf_v1.VirtualServerRouteSpec{Host: "x.example.com", IngressClass: "nginx",
				Upstreams: []conf_v1.Upstream{{Name: "u", Service: "svc", Port: 80}},
				Subroutes: []conf_v1.Route{{Path: "/a/b/c", Action: &conf_v1.Action{Pass: "u"}}}}}
		w.objs = append(w.objs, vsr, vs)
		w.res = append(w.res, Res{Kind: "vs", NS: "a", Name: "web", Hosts: []string{"x.example.com"}, Paths: []string{"/a", "/a/b"}, Routes: []string{"/a->a/r", "/a/b->a/r"}},
			Res{Kind: "vsr", NS: "a", Name: "r", Hosts: []string{"x.example.com"}, Paths: []string{"/a/b/c"}, Upstreams: []string{"u"}})
	case "w-vsr-twice-spellings": // the same VirtualServerRoute referenced as r and as a/r under nested prefixes
		vs := &conf_v1.VirtualServer{ObjectMeta: meta_v1.ObjectMeta{Name: "web", Namespace: "a"},
			Spec: conf_v1.VirtualServerSpec{Host: "x.example.com", IngressClass: "nginx",
				Routes: []conf_v1.Route{{Path: "/a", Route: "r"}, {Path: "/a/b", Route: "a/r"}}}}
		if r.Bool() {
			vs.Spec.Routes[0].Route, vs.Spec.Routes[1].Route = "a/r", "r"
		}
		vsr := &conf_v1.VirtualServerRoute{ObjectMeta: meta_v1.ObjectMeta{Name: "r", Namespace: "a"},
			Spec: conf_v1.VirtualServerRouteSpec{Host: "x.example.com", IngressClass: "nginx",
				Upstreams: []conf_v1.Upstream{{Name: "u", Service: "svc", Port: 80}},
				Subroutes: []conf_v1.Route{{Path: "/a/b/c", Action: &conf_v1.Action{Pass: "u"}}}}}
		w.objs = append(w.objs, vsr, vs)
		w.res = append(w.res, Res{Kind: "vs", NS: "a", Name: "web", Hosts: []string{"x.example.com"}, Paths: []string{"/a", "/a/b"},
			Routes: []string{"/a->" + vs.Spec.Routes[0].Route, "/a/b->" + vs.Spec.Routes[1].Route}},
			Res{Kind: "vsr", NS: "a", Name: "r", Hosts: []string{"x.example.com"}, Paths: []string{"/a/b/c"}, Upstreams: []string{"u"}})
	case "k-ts-shared-listener": // corpus: TransportServers sharing one TCP listener, every state of the TLS Secret
		for _, ns := range []string{"a", "b"} {
			forceReady(w, ns, "svc")
		}
		w.secrets = append(w.secrets,
			&api_v1.Secret{ObjectMeta: meta_v1.ObjectMeta{Name: "tls-k-ok", Namespace: "b"}, Type: api_v1.SecretTypeTLS, Data: map[string][]byte{"tls.crt": validCert, "tls.key": validKey}},
			&api_v1.Secret{ObjectMeta: meta_v1.ObjectMeta{Name: "tls-k-bad", Namespace: "b"}, Type: api_v1.SecretTypeTLS, Data: map[string][]byte{"tls.crt": []byte("garbage"), "tls.key": []byte("garbage")}},
			&api_v1.Secret{ObjectMeta: meta_v1.ObjectMeta{Name: "tls-k-opaque", Namespace: "a"}, Type: api_v1.SecretTypeOpaque, Data: map[string][]byte{"tls.crt": validCert, "tls.key": validKey}})
		mk := func(ns, name, host, secret string) {
			ts := &conf_v1.TransportServer{ObjectMeta: meta_v1.ObjectMeta{Name: name, Namespace: ns},
				Spec: conf_v1.TransportServerSpec{IngressClass: "nginx", Listener: conf_v1.TransportServerListener{Name: "tcp-1", Protocol: "TCP"}, Host: host,
					Upstreams: []conf_v1.TransportServerUpstream{{Name: "u", Service: "svc", Port: 8080}}, Action: &conf_v1.TransportServerAction{Pass: "u"}}}
			if secret != "" {
				ts.Spec.TLS = &conf_v1.TransportServerTLS{Secret: secret}
			}
			w.objs = append(w.objs, ts)
			w.res = append(w.res, Res{Kind: "ts", NS: ns, Name: name, Hosts: []string{host}, Listener: "tcp-1", TLS: "secret=" + secret, Upstreams: []string{"u"}})
		}
		mk("a", "plain", "", "")
		mk("a", "missing", "m.example.com", "tls-k-none")
		mk("a", "opaque", "o.example.com", "tls-k-opaque")
		mk("b", "bad", "bad.example.com", "tls-k-bad")
		mk("b", "ok", "ok.example.com", "tls-k-ok")
	case "k-same-key-kinds": // corpus: an Ingress and a VirtualServer with the SAME namespace/name; the older VirtualServer takes one of the two hosts of the Ingress
		forceReady(w, "a", "svc")
		ing := simpleIngress("a", "web", "foo.example.com", []string{"/"}, "svc", nil)
		r2 := ing.Spec.Rules[0]
		r2.Host = "bar.example.com"
		if r.Bool() {
			ing.Spec.Rules = append(ing.Spec.Rules, r2)
		} else {
			ing.Spec.Rules = []networking.IngressRule{r2, ing.Spec.Rules[0]}
		}
		ing.CreationTimestamp, ing.UID = meta_v1.Unix(1700000600, 0), "uid-ing"
		vs := &conf_v1.VirtualServer{ObjectMeta: meta_v1.ObjectMeta{Name: "web", Namespace: "a", CreationTimestamp: meta_v1.Unix(1700000000, 0), UID: "uid-vs"},
			Spec: conf_v1.VirtualServerSpec{Host: "foo.example.com", IngressClass: "nginx",
				Upstreams: []conf_v1.Upstream{{Name: "u", Service: "svc", Port: 80}}, Routes: []conf_v1.Route{{Path: "/", Action: &conf_v1.Action{Pass: "u"}}}}}
		w.objs = append(w.objs, vs, ing) // the VirtualServer holds the host when the Ingress arrives
		w.res = append(w.res, Res{Kind: "ing", NS: "a", Name: "web", Hosts: []string{"foo.example.com", "bar.example.com"}, Paths: []string{"/"}},
			Res{Kind: "vs", NS: "a", Name: "web", Hosts: []string{"foo.example.com"}, Paths: []string{"/"}, Upstreams: []string{"u"}, Note: "older"})
	case "w-variable-namer": // safeNsName collision a-b/c vs a/b-c
		w.flags.Plus, w.flags.DynWeights = true, true
		mk := func(ns, name, host string) *conf_v1.VirtualServer {
			return &conf_v1.VirtualServer{ObjectMeta: meta_v1.ObjectMeta{Name: name, Namespace: ns},
				Spec: conf_v1.VirtualServerSpec{Host: host, IngressClass: "nginx",
					Upstreams: []conf_v1.Upstream{{Name: "u", Service: "svc", Port: 80}, {Name: "b", Service: "svc", Port: 8080}},
					Routes: []conf_v1.Route{{Path: "/", Splits: []conf_v1.Split{{Weight: 90, Action: &conf_v1.Action{Pass: "u"}}, {Weight: 10, Action: &conf_v1.Action{Pass: "b"}}}}}}}
		}
		w.objs = append(w.objs, mk("a-b", "c", "x.example.com"), mk("a", "b-c", "y.example.com"))
		w.res = append(w.res, Res{Kind: "vs", NS: "a-b", Name: "c", Hosts: []string{"x.example.com"}, Paths: []string{"/"}, Note: "splits"},
			Res{Kind: "vs", NS: "a", Name: "b-c", Hosts: []string{"y.example.com"}, Paths: []string{"/"}, Note: "splits"})
	case "w-minion-login-location": // @login_url_<ns>-<name> of two minions inside one master server
		w.flags.Plus = true
		master := simpleIngress("a", "web", "x.example.com", nil, "svc", map[string]string{"nginx.org/mergeable-ingress-type": "master"})
		master.Spec.Rules[0].HTTP = nil
		mk := func(ns, name, path string) *networking.Ingress {
			return simpleIngress(ns, name, "x.example.com", []string{path}, "svc", map[string]string{"nginx.org/mergeable-ingress-type": "minion",
				"nginx.com/jwt-key": "jwk", "nginx.com/jwt-realm": "r", "nginx.com/jwt-login-url": "https://login.example.com"})
		}
		w.objs = append(w.objs, master, mk("a-b", "c", "/a"), mk("a", "b-c", "/b"))
		w.res = append(w.res, Res{Kind: "master", NS: "a", Name: "web", Hosts: []string{"x.example.com"}},
			Res{Kind: "minion", NS: "a-b", Name: "c", Hosts: []string{"x.example.com"}, Paths: []string{"/a"}, Note: "jwt-login-url"},
			Res{Kind: "minion", NS: "a", Name: "b-c", Hosts: []string{"x.example.com"}, Paths: []string{"/b"}, Note: "jwt-login-url"})
	case "w-minion-login-per-path": // F32: one minion, two paths, jwt login url
		w.flags.Plus = true
		master := simpleIngress("a", "web", "x.example.com", nil, "svc", map[string]string{"nginx.org/mergeable-ingress-type": "master"})
		master.Spec.Rules[0].HTTP = nil
		ann := map[string]string{"nginx.org/mergeable-ingress-type": "minion", "nginx.com/jwt-key": "jwk", "nginx.com/jwt-realm": "r", "nginx.com/jwt-login-url": "https://login.example.com"}
		w.objs = append(w.objs, master, simpleIngress("b", "m", "x.example.com", []string{"/a", "/b"}, "svc", ann))
		w.res = append(w.res, Res{Kind: "master", NS: "a", Name: "web", Hosts: []string{"x.example.com"}},
			Res{Kind: "minion", NS: "b", Name: "m", Hosts: []string{"x.example.com"}, Paths: []string{"/a", "/b"}, Ann: ann})
	case "w-jwks-zone": // F72: proxy_cache_path keys_zone=jwks_uri_<VS name> has no namespace in it
		w.flags.Plus = true
		for _, ns := range []string{"a", "b"} {
			pol := &conf_v1.Policy{ObjectMeta: meta_v1.ObjectMeta{Name: "jwks", Namespace: ns},
				Spec: conf_v1.PolicySpec{JWTAuth: &conf_v1.JWTAuth{Realm: "api", JwksURI: "https://idp.example.com/keys", KeyCache: "1h"}}}
			w.policies = append(w.policies, pol)
			forceReady(w, ns, "svc")
			w.objs = append(w.objs, &conf_v1.VirtualServer{ObjectMeta: meta_v1.ObjectMeta{Name: "web", Namespace: ns},
				Spec: conf_v1.VirtualServerSpec{Host: ns + ".example.com", IngressClass: "nginx", Policies: []conf_v1.PolicyReference{{Name: "jwks"}},
					Upstreams: []conf_v1.Upstream{{Name: "u", Service: "svc", Port: 80}},
					Routes:    []conf_v1.Route{{Path: "/", Action: &conf_v1.Action{Pass: "u"}}}}})
			w.res = append(w.res, Res{Kind: "vs", NS: ns, Name: "web", Hosts: []string{ns + ".example.com"}, Paths: []string{"/"}, Policies: []string{"/jwks"}, Note: "jwksURI"})
		}
	case "w-grpc-hc-noport", "w-cookie-expires", "w-lb-method-space": // F70, F71, F73
		w.flags.Plus, w.flags.HTTP2 = true, true
		forceReady(w, "a", "svc")
		w.secrets = append(w.secrets, &api_v1.Secret{ObjectMeta: meta_v1.ObjectMeta{Name: "tls-w", Namespace: "a"}, Type: api_v1.SecretTypeTLS,
			Data: map[string][]byte{"tls.crt": validCert, "tls.key": validKey}})
		u := conf_v1.Upstream{Name: "u", Service: "svc", Port: 80}
		note := ""
		switch class {
		case "w-grpc-hc-noport":
			u.Type = "grpc"
			u.HealthCheck = &conf_v1.HealthCheck{Enable: true, Interval: "5s", Jitter: "1s", Fails: 1, Passes: 1}
			note = "grpc health check without port"
		case "w-cookie-expires":
			u.SessionCookie = &conf_v1.SessionCookie{Enable: true, Name: "srv_id", Expires: "1h 30m"}
			note = "sessionCookie.expires=1h 30m"
		case "w-lb-method-space":
			u.LBMethod = "round_robin "
			note = "lb-method with trailing blank"
		}
		w.objs = append(w.objs, &conf_v1.VirtualServer{ObjectMeta: meta_v1.ObjectMeta{Name: "web", Namespace: "a"},
			Spec: conf_v1.VirtualServerSpec{Host: "x.example.com", IngressClass: "nginx", TLS: &conf_v1.TLS{Secret: "tls-w"},
				Upstreams: []conf_v1.Upstream{u}, Routes: []conf_v1.Route{{Path: "/", Action: &conf_v1.Action{Pass: "u"}}}}})
		w.res = append(w.res, Res{Kind: "vs", NS: "a", Name: "web", Hosts: []string{"x.example.com"}, Paths: []string{"/"}, Upstreams: []string{"u"}, Note: note})
	case "w-rewrite-backslash": // F27
		ann := map[string]string{"nginx.org/rewrites": "serviceName=svc rewrite=/x\\"}
		w.objs = append(w.objs, simpleIngress("a", "web", "x.example.com", []string{"/"}, "svc", ann))
		w.res = append(w.res, Res{Kind: "ing", NS: "a", Name: "web", Hosts: []string{"x.example.com"}, Paths: []string{"/"}, Ann: ann})
	case "w-sticky-brace": // F28
		w.flags.Plus = true
		ann := map[string]string{"nginx.com/sticky-cookie-services": "serviceName=svc srv_id expires=1h path=/{"}
		w.objs = append(w.objs, simpleIngress("a", "web", "x.example.com", []string{"/"}, "svc", ann))
		w.res = append(w.res, Res{Kind: "ing", NS: "a", Name: "web", Hosts: []string{"x.example.com"}, Paths: []string{"/"}, Ann: ann})
	case "w-ts-hash-key": // F29
		lb := "hash x{"
		ts := &conf_v1.TransportServer{ObjectMeta: meta_v1.ObjectMeta{Name: "web", Namespace: "a"},
			Spec: conf_v1.TransportServerSpec{IngressClass: "nginx", Listener: conf_v1.TransportServerListener{Name: "tcp-1", Protocol: "TCP"},
				Upstreams: []conf_v1.TransportServerUpstream{{Name: "u", Service: "svc", Port: 8080, LoadBalancingMethod: lb}},
				Action:    &conf_v1.TransportServerAction{Pass: "u"}}}
		w.objs = append(w.objs, ts)
		w.res = append(w.res, Res{Kind: "ts", NS: "a", Name: "web", Upstreams: []string{"u"}, Listener: "tcp-1", Note: "lb=" + lb})
	case "w-limit-req-key": // F26 (C06's finding; here only its C07 face: a lexically broken file)
		ann := map[string]string{"nginx.org/limit-req-rate": "10r/s", "nginx.org/limit-req-key": "$x zone=a:1m rate=1r/s; } #"}
		w.objs = append(w.objs, simpleIngress("a", "web", "x.example.com", []string{"/"}, "svc", ann))
		w.res = append(w.res, Res{Kind: "ing", NS: "a", Name: "web", Hosts: []string{"x.example.com"}, Paths: []string{"/"}, Ann: ann})
	}
}

// ---------------------------------------------------------------- running a world on the real code

func repoDir() string {
	if d := os.Getenv("VERIF_REPO"); d != "" {
		return d
	}
	return "/repo"
}

func runWorld(w *world) (obs Obs) {
	defer func() {
		if p := recover(); p != nil {
			obs.Panic = fmt.Sprint(p)
		}
	}()
	fl := w.flags
	base := filepath.Join(repoDir(), "internal", "configs")
	main1, ing1, vs2, ts2 := "version1/nginx.tmpl", "version1/nginx.ingress.tmpl", "version2/nginx.virtualserver.tmpl", "version2/nginx.transportserver.tmpl"
	if fl.Plus {
		main1, ing1, vs2, ts2 = "version1/nginx-plus.tmpl", "version1/nginx-plus.ingress.tmpl", "version2/nginx-plus.virtualserver.tmpl", "version2/nginx-plus.transportserver.tmpl"
	}
	te1, err := version1.NewTemplateExecutor(filepath.Join(base, main1), filepath.Join(base, ing1))
	if err != nil {
		obs.Error = "template v1: " + err.Error()
		return
	}
	te2, err := version2.NewTemplateExecutor(filepath.Join(base, vs2), filepath.Join(base, ts2))
	if err != nil {
		obs.Error = "template v2: " + err.Error()
		return
	}
	mgr := newRecMgr()
	ver := "nginx version: nginx/1.27.2"
	if fl.Plus {
		ver = "nginx version: nginx/1.27.2 (nginx-plus-r33)"
	}
	ctx := context.Background()
	cfg := configs.NewDefaultConfigParams(ctx, fl.Plus)
	cfg.HTTP2 = fl.HTTP2
	cfg.ProxyProtocol = fl.ProxyProtocol
	cfg.HSTS = fl.HSTS
	if fl.RealIP {
		cfg.RealIPHeader, cfg.SetRealIPFrom, cfg.RealIPRecursive = "X-Forwarded-For", []string{"10.0.0.0/8"}, true
	}
	if fl.Resolver {
		cfg.ResolverAddresses, cfg.ResolverValid, cfg.ResolverTimeout = []string{"kube-dns.kube-system.svc.cluster.local"}, "5s", "3s"
	}
	static := &configs.StaticConfigParams{
		HealthStatus: true, HealthStatusURI: "/nginx-health", NginxStatus: true, NginxStatusAllowCIDRs: []string{"127.0.0.1"},
		NginxStatusPort: 8080, DefaultHTTPListenerPort: 80, DefaultHTTPSListenerPort: 443, DisableIPV6: fl.IPV6Disabled,
		TLSPassthrough: fl.TLSPassthrough, TLSPassthroughPort: 443, EnableInternalRoutes: fl.InternalRoutes, InternalRouteServerName: "internal.example.com",
		EnableLatencyMetrics: fl.Latency, SSLRejectHandshake: fl.RejectHS, DynamicSSLReload: fl.DynSSL, StaticSSLPath: "/etc/nginx/secrets",
		DynamicWeightChangesReload: fl.DynWeights, NginxVersion: nginx.NewVersion(ver),
	}
	cnf := configs.NewConfigurator(configs.ConfiguratorParams{
		NginxManager: mgr, StaticCfgParams: static, Config: cfg, MGMTCfgParams: configs.NewDefaultMGMTConfigParams(ctx),
		TemplateExecutor: te1, TemplateExecutorV2: te2, IsPlus: fl.Plus, IsWildcardEnabled: fl.Wildcard,
		IsDynamicSSLReloadEnabled: fl.DynSSL, IsDynamicWeightChangesReloadEnabled: fl.DynWeights, NginxVersion: nginx.NewVersion(ver),
	})
	cnf.EnableReloads()
	v := k8s.NewVerifC07(k8s.VerifC07Opts{IsPlus: fl.Plus, TLSPassthrough: fl.TLSPassthrough, IPV6Disabled: fl.IPV6Disabled,
		InternalRoutes: fl.InternalRoutes, Prometheus: false, Latency: false, IngressClass: "nginx", Configurator: cnf})
	for _, s := range w.svcs {
		v.AddService(s)
	}
	for _, s := range w.slices {
		v.AddEndpointSlice(s)
	}
	for _, s := range w.secrets {
		v.AddSecret(s)
	}
	for _, p := range w.policies {
		v.AddPolicy(p)
	}
	note := func(chs []k8s.VerifChange, problems int) {
		obs.Problems += problems
		if os.Getenv("VERIF_C07_DEBUG") != "" && len(chs) > 1 {
			fmt.Fprintln(os.Stderr, "BATCH", chs)
		}
		for _, c := range chs {
			if c.Err != "" {
				obs.Errors = append(obs.Errors, c.Op+" "+c.Kind+" "+c.Key+": "+firstLine(c.Err))
			}
		}
	}
	chs, pr, err := v.SetGlobalConfiguration(w.gc)
	if err != nil {
		obs.Errors = append(obs.Errors, "gc: "+firstLine(err.Error()))
	}
	note(chs, pr)
	apply := func(o any) {
		switch x := o.(type) {
		case *networking.Ingress:
			note(v.AddIngress(x))
		case *conf_v1.VirtualServer:
			note(v.AddVirtualServer(x))
		case *conf_v1.VirtualServerRoute:
			note(v.AddVirtualServerRoute(x))
		case *conf_v1.TransportServer:
			note(v.AddTransportServer(x))
		}
	}
	for _, o := range w.objs {
		apply(o)
	}
	if fl.Churn && len(w.objs) > 0 {
		o := w.objs[0]
		switch x := o.(type) {
		case *networking.Ingress:
			note(v.DeleteIngress(x.Namespace + "/" + x.Name))
		case *conf_v1.VirtualServer:
			note(v.DeleteVirtualServer(x.Namespace + "/" + x.Name))
		case *conf_v1.VirtualServerRoute:
			note(v.DeleteVirtualServerRoute(x.Namespace + "/" + x.Name))
		case *conf_v1.TransportServer:
			note(v.DeleteTransportServer(x.Namespace + "/" + x.Name))
		}
		apply(o)
	}
	if fl.MainConf {
		if err := v.UpdateAll(); err != nil {
			obs.Errors = append(obs.Errors, "updateall: "+firstLine(err.Error()))
		}
	}
	if os.Getenv("VERIF_C07_DEBUG") != "" {
		for _, m := range k8s.ProblemLog {
			fmt.Fprintln(os.Stderr, "PROBLEM", m)
		}
	}
	k8s.ProblemLog = nil
	obs.Accepted = v.Accepted()
	sort.Strings(obs.Accepted)
	sort.Strings(obs.Errors)
	mgr.snapshot() // the end state
	mk := func(n string, b []byte) FileObs {
		f := FileObs{Name: n}
		for _, c := range b {
			if !(c == 9 || c == 10 || (c >= 32 && c < 127)) {
				f.Bytes = vh.Bytes(string(b))
				return f
			}
		}
		f.Text = string(b)
		return f
	}
	final := mgr.snaps[len(mgr.snaps)-1]
	pos := map[int]int{}
	for _, vi := range final {
		pos[vi] = len(obs.Files)
		obs.Files = append(obs.Files, mk(mgr.versions[vi].name, mgr.versions[vi].content))
	}
	for vi, fv := range mgr.versions {
		if _, ok := pos[vi]; !ok {
			pos[vi] = len(final) + len(obs.Old)
			obs.Old = append(obs.Old, mk(fv.name, fv.content))
		}
	}
	for _, sn := range mgr.snaps[:len(mgr.snaps)-1] {
		var t []int
		for _, vi := range sn {
			t = append(t, pos[vi])
		}
		obs.Snaps = append(obs.Snaps, t)
	}
	return obs
}

func firstLine(s string) string {
	if i := strings.IndexByte(s, '\n'); i >= 0 {
		s = s[:i]
	}
	if len(s) > 160 {
		s = s[:160]
	}
	return s
}

var witnessClasses = []string{"w-ingress-upstream-name", "w-ingress-path-brace", "w-ts-maxconns", "w-vsr-twice", "w-variable-namer",
	"w-rewrite-backslash", "w-sticky-brace", "w-ts-hash-key", "w-limit-req-key", "w-minion-login-location", "w-minion-login-per-path",
	"w-jwks-zone", "w-grpc-hc-noport", "w-cookie-expires", "w-lb-method-space", "w-vsr-twice-spellings", "k-ts-shared-listener", "k-same-key-kinds"}

// ---------------------------------------------------------------- identifier schemes (model correspondence)

func randComp(r *vh.Rng) string {
	switch r.Intn(4) {
	case 0:
		return vh.Pick(r, nsPool)
	case 1:
		return vh.Pick(r, namePool)
	case 2:
		return vh.Pick(r, []string{"a_b", "A-b", "x--y", "-", "_", "a.b-c", "", "vsr", "vs", "0", "a-", "-a"})
	}
	n := 1 + r.Intn(6)
	b := make([]byte, n)
	for i := range b {
		b[i] = "abcxyz019-.-"[r.Intn(12)]
	}
	return string(b)
}

var schemes = []string{"vs_upstream", "vsr_upstream", "ts_upstream", "ingress_upstream", "keyval_zone", "matches_map", "login_location"}

func runNames(seed uint64, id int) (c Case) {
	r := vh.NewRng(seed).Fork(uint64(id))
	c = Case{ID: id, Class: "names", Seed: seed, Scheme: vh.Pick(r, schemes)}
	defer func() {
		if p := recover(); p != nil {
			c.Obs.Panic = fmt.Sprint(p)
		}
	}()
	arg := func(n int) {
		for i := 0; i < n; i++ {
			c.Args = append(c.Args, randComp(r))
		}
	}
	vsOf := func(ns, name string) *conf_v1.VirtualServer {
		return &conf_v1.VirtualServer{ObjectMeta: meta_v1.ObjectMeta{Namespace: ns, Name: name}}
	}
	var real string
	switch c.Scheme {
	case "vs_upstream":
		arg(3)
		real = configs.NewUpstreamNamerForVirtualServer(vsOf(c.Args[0], c.Args[1])).GetNameForUpstream(c.Args[2])
	case "vsr_upstream":
		arg(5)
		vsr := &conf_v1.VirtualServerRoute{ObjectMeta: meta_v1.ObjectMeta{Namespace: c.Args[2], Name: c.Args[3]}}
		real = configs.NewUpstreamNamerForVirtualServerRoute(vsOf(c.Args[0], c.Args[1]), vsr).GetNameForUpstream(c.Args[4])
	case "ts_upstream":
		arg(3)
		real = configs.VerifC07TSUpstreamName(c.Args[0], c.Args[1], c.Args[2])
	case "ingress_upstream":
		arg(4)
		port := int32(r.Intn(65536))
		pname := ""
		if r.Chance(1, 3) {
			pname = vh.Pick(r, []string{"http", "a-b", "web"})
			c.Args = append(c.Args, pname)
		} else {
			c.Args = append(c.Args, fmt.Sprint(port))
		}
		real = configs.VerifC07IngressUpstreamName(c.Args[0], c.Args[1], c.Args[2], c.Args[3], port, pname)
	case "keyval_zone":
		arg(2)
		i := r.Intn(1200)
		c.Args = append(c.Args, fmt.Sprint(i))
		real = configs.NewVSVariableNamer(vsOf(c.Args[0], c.Args[1])).GetNameOfKeyvalZoneForSplitClientIndex(i)
	case "matches_map":
		arg(2)
		i := r.Intn(1200)
		c.Args = append(c.Args, fmt.Sprint(i))
		real = configs.NewVSVariableNamer(vsOf(c.Args[0], c.Args[1])).GetNameForVariableForMatchesRouteMainMap(i)
	case "login_location":
		arg(2)
		real = configs.VerifC07LoginLocation(c.Args[0], c.Args[1])
	}
	c.Obs.Files = []FileObs{{Name: "name", Bytes: vh.Bytes(real)}}
	return c
}

// ---------------------------------------------------------------- Ingress path validator (model correspondence)

func runPaths(seed uint64, id int) (c Case) {
	r := vh.NewRng(seed).Fork(uint64(id))
	c = Case{ID: id, Class: "paths", Seed: seed, Scheme: "ingress_path"}
	defer func() {
		if p := recover(); p != nil {
			c.Obs.Panic = fmt.Sprint(p)
		}
	}()
	var p string
	switch r.Intn(6) {
	case 0:
		p = vh.Pick(r, []string{"/{", "/a{1,3}", "/a{1", "/a{b}", "/a{1}b{c}", "/etc/x", "/x/etc/", "/a/root", "/var", "/a\\n", "/a\\r", "/a\\rb", "/a\\", "/a\\\\", "/a\"b", "/a\\\"b", "", "a", "/", "/a b", "/a;b", "/a\tb", "/a${b", "/a$b{", "/a'b", "/a#b", "/a}b{"})
	default:
		n := r.Intn(8)
		b := []byte{'/'}
		if r.Chance(1, 12) {
			b = nil
		}
		alpha := "aAz{}19,\\\"'$;# \t\n\f\r/.-_()[]*+?^|{}{\\"
		for i := 0; i < n; i++ {
			b = append(b, alpha[r.Intn(len(alpha))])
		}
		p = string(b)
	}
	c.Args = nil
	ing := simpleIngress("a", "web", "x.example.com", []string{p}, "svc", nil)
	acc := true
	for _, f := range k8s.VerifValidateIngress(ing, false, false) {
		if strings.Contains(f, "path") {
			acc = false
		}
	}
	c.Obs.Files = []FileObs{{Name: "path", Bytes: vh.Bytes(p)}}
	if acc {
		c.Obs.Accepted = []string{"path"}
	}
	return c
}

func runCase(seed uint64, id int, class string, k int) Case {
	if class == "names" {
		return runNames(seed, id)
	}
	if class == "paths" {
		return runPaths(seed, id)
	}
	if class == "payload" {
		return runPayload(seed, id, k)
	}
	fork := id
	if class == "set" && k > 0 {
		fork = k // corpus: a generated set kept by (seed, fork index), whatever the seed and case ids of the run
	}
	r := vh.NewRng(seed).Fork(uint64(fork))
	w := genWorld(r, class)
	c := Case{ID: id, Class: class, Seed: seed, K: k, Flags: w.flags, Deps: w.deps, Res: w.res}
	c.Obs = runWorld(w)
	return c
}

func main() {
	a := vh.ParseArgs()
	out, err := vh.NewWriter(a.Out)
	if err != nil {
		fmt.Fprintln(os.Stderr, err)
		os.Exit(2)
	}
	defer out.Close()
	if a.Replay != "" {
		var cases []Case
		if err := vh.ReadReplay(a.Replay, &cases); err != nil {
			fmt.Fprintln(os.Stderr, err)
			os.Exit(2)
		}
		for _, c := range cases {
			out.Emit(runCase(c.Seed, c.ID, c.Class, c.K))
		}
		return
	}
	id := 0
	for _, cl := range witnessClasses {
		out.Emit(runCase(a.Seed, id, cl, 0))
		id++
	}
	// corpus of generated sets that exposed a seeded defect once (hand-over histories inside a batch)
	for _, cs := range [][2]uint64{{1, 149}, {1, 113}} {
		out.Emit(runCase(cs[0], id, "set", int(cs[1])))
		id++
	}
	for i := 0; i < a.N; i++ {
		out.Emit(runCase(a.Seed, id, "set", 0))
		id++
	}
	for i := 0; i < a.N; i++ {
		out.Emit(runCase(a.Seed, id, "names", 0))
		id++
	}
	for i := 0; i < a.N; i++ {
		out.Emit(runCase(a.Seed, id, "paths", 0))
		id++
	}
	for _, k := range payloadKs(a.Seed, a.Tier) {
		out.Emit(runCase(a.Seed, id, "payload", k))
		id++
	}
}
