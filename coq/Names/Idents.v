(* Names/Idents.v -- models of the identifier schemes of internal/configs.  NO PROOFS here
   (Names/IdentsProofs.v).  Every function is compared with the real Go function by the c07
   harness (class [names]).

     join c x xs                     x ++ c ++ xs1 ++ c ++ ...      (concatenation with separator c)
     vs_upstream_name ns name up                  vs_<ns>_<name>_<up>              upstreamNamer (virtualserver.go)
     vsr_upstream_name vsns vs ns name up         vs_<vsns>_<vs>_vsr_<ns>_<name>_<up>
     ts_upstream_name ns name up                  ts_<ns>_<name>_<up>              transportserver.go
     ingress_upstream_name ns ing host svc port   <ns>-<ing>-<host>-<svc>-<port>   getNameForUpstream (ingress.go)
     safe_ns_name ns name                         ReplaceAll(ns_name, -, _)        NewVSVariableNamer
     keyval_zone_name ns name i                   vs_<safe>_keyval_zone_split_clients_<i>
     matches_map_name ns name i                   $vs_<safe>_matches_<i>
     rl_zone_name polns pol vsns vs               pol_rl_<polns>_<pol>_<vsns>_<vs>  addRateLimitConfig
     match_name upstream                          <upstream>_match                  health-check match block
     ingress_rl_zone_name ns name                 <ns>/<name>                       ingress.go limit_req zone
     login_location_name ns name                  @login_url_<ns>-<name>            getNameForRedirectLocation
     dns_char / dns_name                          the bytes of DNS-1123 subdomains / DNS-1035 labels
                                                  (lower-case letters, digits, - and .) *)
From Coq Require Import List String Ascii Bool Arith.
Import ListNotations.
Open Scope string_scope.

Definition us : ascii := "_"%char.
Definition dash : ascii := "-"%char.

Fixpoint join (c : ascii) (x : string) (xs : list string) : string :=
  match xs with
  | [] => x
  | y :: r => x ++ String c (join c y r)
  end.

Fixpoint has_char (c : ascii) (s : string) : bool :=
  match s with
  | EmptyString => false
  | String a r => Ascii.eqb a c || has_char c r
  end.

Definition dns_char (c : ascii) : bool :=
  let n := nat_of_ascii c in
  (Nat.leb 97 n && Nat.leb n 122) || (Nat.leb 48 n && Nat.leb n 57) || Nat.eqb n 45 || Nat.eqb n 46.

Fixpoint dns_name (s : string) : bool :=
  match s with
  | EmptyString => true
  | String a r => dns_char a && dns_name r
  end.

Definition vs_upstream_name (ns name up : string) : string := join us "vs" [ns; name; up].
Definition vsr_upstream_name (vsns vs ns name up : string) : string :=
  join us "vs" [vsns; vs; "vsr"; ns; name; up].
Definition ts_upstream_name (ns name up : string) : string := join us "ts" [ns; name; up].

Definition ingress_upstream_name (ns ing host svc port : string) : string :=
  join dash ns [ing; host; svc; port].

Fixpoint replace_dash (s : string) : string :=
  match s with
  | EmptyString => EmptyString
  | String a r => String (if Ascii.eqb a dash then us else a) (replace_dash r)
  end.

Definition safe_ns_name (ns name : string) : string := replace_dash (ns ++ "_" ++ name).

(* decimal rendering of an index (Go %d on a non-negative int) *)
Definition digit (n : nat) : ascii := ascii_of_nat (48 + n).
Fixpoint dec_fuel (fuel n : nat) (acc : string) : string :=
  match fuel with
  | O => acc
  | S f => let acc' := String (digit (n mod 10)) acc in
           if Nat.ltb n 10 then acc' else dec_fuel f (n / 10) acc'
  end.
Definition dec (n : nat) : string := dec_fuel (S n) n "".

Definition keyval_zone_name (ns name : string) (i : nat) : string :=
  "vs_" ++ safe_ns_name ns name ++ "_keyval_zone_split_clients_" ++ dec i.
Definition matches_map_name (ns name : string) (i : nat) : string :=
  "$vs_" ++ safe_ns_name ns name ++ "_matches_" ++ dec i.

Definition rl_zone_name (polns pol vsns vs : string) : string := join us "pol" ["rl"; polns; pol; vsns; vs].
Definition match_name (upstream : string) : string := upstream ++ "_match".
Definition ingress_rl_zone_name (ns name : string) : string := ns ++ "/" ++ name.
Definition login_location_name (ns name : string) : string := "@login_url_" ++ ns ++ "-" ++ name.

(* "append unless already present": the shape of the repairs F32 (jwtRedirectLocationExists: the JWT
   redirect location of a minion is added to the server once, not once per path) and F12 (a
   VirtualServerRoute is attached to a VirtualServer once, however many routes reference it) *)
Definition add_once (x : string) (l : list string) : list string :=
  if existsb (String.eqb x) l then l else (l ++ [x])%list.
Definition collect_once (xs : list string) : list string := fold_left (fun acc x => add_once x acc) xs [].
