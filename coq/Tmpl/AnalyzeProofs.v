(* Tmpl/AnalyzeProofs.v -- soundness of the template analysis of Analyze.v, for ALL renderings.

   THE THEOREM
     analyze_sound : analyze t Q = Some Q' ->
       forall tr1 tr2, fits t tr1 -> fits t tr2 -> same_control t tr1 tr2 ->
                       values_ok t tr1 -> values_ok t tr2 ->
       forall q1 q2, In q1 Q -> In q2 Q ->
         let (q1', e1) := run q1 (render t tr1) in
         let (q2', e2) := run q2 (render t tr2) in
         structural e1 = structural e2 /\ In q1' Q' /\ In q2' Q' /\ no_err e1 = true /\ no_err e2 = true
     (analyze_diag_sound is the same statement with fst / snd instead of the destructuring lets)
   COROLLARIES
     structure_invariant   analyze t [QBetween] = Some Q' -> (forall q in Q', final_ok q = true) ->
                           two renderings with the same control and class-respecting site values have
                           equal structural event lists, both are free of lexical errors and both end
                           in a state in which a file may end
     file_ok_invariant     the same from the boolean Analyze.file_ok t = true
     rendering_wellformed  every single class-respecting rendering is accepted by the event view of
                           the tokenizer: Lexer.events_ok (render t tr) = true
     analyze_diag_ok_iff   analyze_diag t Q = DOk Q' <-> analyze t Q = Some Q'
   The proof is an induction on the template; Star uses an inner induction on the list of rounds
   (the trace type is only ever destructed, never inducted on). *)
From Coq Require Import List String Ascii Bool.
From NIC Require Import Lex.Lexer Tmpl.Syntax Tmpl.LexAux Tmpl.Classes Tmpl.ClassesProofs Tmpl.Analyze.
Import ListNotations.
Open Scope string_scope.
Open Scope list_scope.

(* the relation established between two runs *)
Definition rel2 (Q' : list lstate) (q1 q2 : lstate) (s1 s2 : string) : Prop :=
  structural (snd (run q1 s1)) = structural (snd (run q2 s2)) /\
  In (fst (run q1 s1)) Q' /\ In (fst (run q2 s2)) Q' /\
  no_err (snd (run q1 s1)) = true /\ no_err (snd (run q2 s2)) = true.

Lemma rel2_weaken : forall A B q1 q2 s1 s2,
    rel2 A q1 q2 s1 s2 -> (forall x, In x A -> In x B) -> rel2 B q1 q2 s1 s2.
Proof. intros A B q1 q2 s1 s2 (H1 & H2 & H3 & H4 & H5) Hs. repeat split; auto. Qed.

Lemma rel2_nil : forall Q q1 q2, In q1 Q -> In q2 Q -> rel2 Q q1 q2 "" "".
Proof. intros. repeat split; cbn; auto. Qed.

Lemma rel2_app : forall Qm Q' q1 q2 a1 a2 b1 b2,
    rel2 Qm q1 q2 a1 a2 ->
    (forall p1 p2, In p1 Qm -> In p2 Qm -> rel2 Q' p1 p2 b1 b2) ->
    rel2 Q' q1 q2 (a1 ++ b1)%string (a2 ++ b2)%string.
Proof.
  intros Qm Q' q1 q2 a1 a2 b1 b2 (H1 & H2 & H3 & H4 & H5) Hb.
  destruct (Hb _ _ H2 H3) as (G1 & G2 & G3 & G4 & G5).
  unfold rel2. rewrite !run_app_fst, !run_app_snd, !structural_app, !no_err_app.
  rewrite H1, G1, H4, H5, G4, G5. repeat split; auto.
Qed.

(* ---------------------------------------------------------------- Text *)

Lemma text_all_sound : forall s Q ref acc Q',
    text_all s ref Q acc = DOk Q' ->
    exists e0,
      (forall q0 e, ref = Some (q0, e) -> e = e0) /\
      (forall q, In q Q ->
         no_err (snd (run q s)) = true /\ structural (snd (run q s)) = e0 /\ In (fst (run q s)) Q') /\
      (forall x, In x acc -> In x Q').
Proof.
  intros s. induction Q as [|q Q IH]; intros ref acc Q' H; cbn [text_all] in H.
  - injection H as <-. exists (match ref with Some (_, e) => e | None => [] end).
    split; [intros q0 e ->; reflexivity|]. split; [intros q []|].
    intros x Hx. now apply norm_st_In.
  - destruct (run q s) as [q' e] eqn:Hr.
    destruct (no_err e && negb (lstate_eqb q' QErr)) eqn:Hc; [|discriminate].
    apply andb_true_iff in Hc. destruct Hc as [Hne _].
    destruct ref as [[q0 e0]|].
    + destruct (evs_eqb (structural e) e0) eqn:He; [|discriminate].
      apply evs_eqb_eq in He.
      destruct (IH _ _ _ H) as (e1 & R1 & R2 & R3).
      pose proof (R1 q0 e0 eq_refl) as E. subst e1.
      exists e0. split; [intros ? ? [= _ <-]; reflexivity|]. split.
      * intros x [<-|Hx]; [|now apply R2]. rewrite Hr. cbn [fst snd].
        repeat split; auto. apply R3. now left.
      * intros x Hx. apply R3. now right.
    + destruct (IH _ _ _ H) as (e1 & R1 & R2 & R3).
      pose proof (R1 q (structural e) eq_refl) as E. subst e1.
      exists (structural e). split; [intros ? ? [=]|]. split.
      * intros x [<-|Hx]; [|now apply R2]. rewrite Hr. cbn [fst snd].
        repeat split; auto. apply R3. now left.
      * intros x Hx. apply R3. now right.
Qed.

Lemma text_rel2 : forall s Q Q' q1 q2,
    text_all s None Q [] = DOk Q' -> In q1 Q -> In q2 Q -> rel2 Q' q1 q2 s s.
Proof.
  intros s Q Q' q1 q2 H H1 H2. destruct (text_all_sound _ _ _ _ _ H) as (e0 & _ & R & _).
  destruct (R q1 H1) as (A1 & A2 & A3). destruct (R q2 H2) as (B1 & B2 & B3).
  unfold rel2. rewrite A2, B2. repeat split; auto.
Qed.

(* ---------------------------------------------------------------- Site *)

Lemma site_all_sound : forall id c Q acc Q',
    site_all id c Q acc = DOk Q' ->
    (forall q, In q Q -> exists qs, site_transfer c q = Some qs /\ forall x, In x qs -> In x Q') /\
    (forall x, In x acc -> In x Q').
Proof.
  intros id c. induction Q as [|q Q IH]; intros acc Q' H; cbn [site_all] in H.
  - injection H as <-. split; [intros q []|]. intros x Hx. now apply norm_st_In.
  - rewrite site_transfer_fast_eq in H.
    destruct (site_transfer c q) as [qs|] eqn:Ht; [|discriminate].
    destruct (IH _ _ H) as [R1 R2]. split.
    + intros x [<-|Hx]; [|now apply R1]. exists qs. split; [assumption|].
      intros y Hy. apply R2, in_app_iff. now left.
    + intros x Hx. apply R2, in_app_iff. now right.
Qed.

Lemma lit_all_sound : forall id c alts Q acc Q',
    lit_all id c alts Q acc = DOk Q' ->
    (forall a, In a alts -> exists Qa, text_all a None Q [] = DOk Qa /\ forall x, In x Qa -> In x Q') /\
    (forall x, In x acc -> In x Q').
Proof.
  intros id c. induction alts as [|a alts IH]; intros Q acc Q' H; cbn [lit_all] in H.
  - injection H as <-. split; [intros a []|]. intros x Hx. now apply norm_st_In.
  - destruct (text_all a None Q []) as [Qa| | |] eqn:Ht; try discriminate.
    destruct (IH _ _ _ H) as [R1 R2]. split.
    + intros x [<-|Hx]; [|now apply R1]. exists Qa. split; [assumption|].
      intros y Hy. apply R2, in_app_iff. now left.
    + intros x Hx. apply R2, in_app_iff. now right.
Qed.

Lemma existsb_eqb_In : forall v alts, existsb (String.eqb v) alts = true -> In v alts.
Proof.
  intros v alts H. apply existsb_exists in H. destruct H as (x & Hx & He).
  apply String.eqb_eq in He. now subst.
Qed.

(* a site whose class is not control: both values are neutral *)
Lemma site_neutral_rel2 : forall id c Q Q' v1 v2 q1 q2,
    c <> CLines -> site_all id c Q [] = DOk Q' ->
    in_class c v1 -> in_class c v2 -> In q1 Q -> In q2 Q -> rel2 Q' q1 q2 v1 v2.
Proof.
  intros id c Q Q' v1 v2 q1 q2 Hc H V1 V2 H1 H2.
  destruct (site_all_sound _ _ _ _ _ H) as [R _].
  destruct (R q1 H1) as (qs1 & T1 & S1). destruct (R q2 H2) as (qs2 & T2 & S2).
  destruct (site_transfer_sound c q1 qs1 v1 T1 V1) as (p1 & e1 & A1 & A2 & A3 & A4).
  destruct (site_transfer_sound c q2 qs2 v2 T2 V2) as (p2 & e2 & B1 & B2 & B3 & B4).
  unfold rel2. rewrite A1, B1. cbn [fst snd]. rewrite (A4 Hc), (B4 Hc). repeat split; auto.
Qed.

Lemma site_lines_rel2 : forall id Q Q' v q1 q2,
    site_all id CLines Q [] = DOk Q' ->
    in_class CLines v -> In q1 Q -> In q2 Q -> rel2 Q' q1 q2 v v.
Proof.
  intros id Q Q' v q1 q2 H V H1 H2.
  destruct (site_all_sound _ _ _ _ _ H) as [R _].
  destruct (R q1 H1) as (qs1 & T1 & S1). destruct (R q2 H2) as (qs2 & T2 & S2).
  assert (E1 : q1 = QBetween) by (destruct q1; cbn in T1; congruence).
  assert (E2 : q2 = QBetween) by (destruct q2; cbn in T2; congruence).
  subst q1 q2.
  destruct (site_transfer_sound CLines QBetween qs1 v T1 V) as (p1 & e1 & A1 & A2 & A3 & _).
  unfold rel2. rewrite A1. cbn [fst snd]. repeat split; auto.
Qed.

Lemma analyze_site_sound : forall id c Q Q' v1 v2 q1 q2,
    analyze_site id c Q = DOk Q' ->
    (if is_control c then v1 = v2 else True) ->
    in_class c v1 -> in_class c v2 -> In q1 Q -> In q2 Q -> rel2 Q' q1 q2 v1 v2.
Proof.
  intros id c Q Q' v1 v2 q1 q2 H Hctl V1 V2 H1 H2.
  destruct c; cbn [analyze_site is_control] in H, Hctl;
    try (match type of H with site_all _ ?k _ _ = _ =>
           apply (site_neutral_rel2 id k Q Q' v1 v2 q1 q2); [discriminate|assumption..] end).
  - (* CLit *)
    subst v2. destruct alts as [|a0 alts0]; [discriminate|].
    destruct (lit_all_sound _ _ _ _ _ _ H) as [R _].
    unfold in_class in V1. cbn [in_class_b] in V1. apply existsb_eqb_In in V1.
    destruct (R v1 V1) as (Qa & Ht & Hs).
    apply rel2_weaken with Qa; [|assumption]. now apply text_rel2 with Q.
  - (* CLines *)
    subst v2. now apply site_lines_rel2 with id Q.
Qed.

(* ---------------------------------------------------------------- Star *)

Lemma star_loop_inv : forall f fuel Q Qi,
    star_loop f fuel Q = DOk Qi ->
    (forall x, In x Q -> In x Qi) /\
    exists Q'', f Qi = DOk Q'' /\ forall x, In x Q'' -> In x Qi.
Proof.
  intros f. induction fuel as [|n IH]; intros Q Qi H; cbn [star_loop] in H; [discriminate|].
  destruct (f Q) as [Q'| | |] eqn:Hf; try discriminate.
  destruct (subset_st Q' Q) eqn:Hs.
  - injection H as <-. split; [auto|]. exists Q'. split; [assumption|].
    now apply subset_st_In.
  - destruct (IH _ _ H) as [R1 R2]. split; [|assumption].
    intros x Hx. apply R1, union_st_In. now left.
Qed.

(* ---------------------------------------------------------------- the induction *)

Theorem analyze_diag_sound : forall t Q Q',
    analyze_diag t Q = DOk Q' ->
    forall tr1 tr2, fits t tr1 -> fits t tr2 -> same_control t tr1 tr2 ->
                    values_ok t tr1 -> values_ok t tr2 ->
    forall q1 q2, In q1 Q -> In q2 Q -> rel2 Q' q1 q2 (render t tr1) (render t tr2).
Proof.
  induction t as [s|id c|a IHa b IHb|a IHa b IHb|a IHa];
    intros Q Q' H tr1 tr2 F1 F2 SC V1 V2 q1 q2 H1 H2; cbn [analyze_diag] in H.
  - (* Text *)
    cbn [render]. now apply text_rel2 with Q.
  - (* Site *)
    destruct tr1 as [|v1| | | |]; try contradiction. destruct tr2 as [|v2| | | |]; try contradiction.
    cbn [render same_control values_ok] in *. now apply analyze_site_sound with id c Q.
  - (* Seq *)
    destruct tr1 as [| |x1 y1| | |]; try contradiction. destruct tr2 as [| |x2 y2| | |]; try contradiction.
    cbn [render fits same_control values_ok] in *.
    destruct (analyze_diag a Q) as [Q1| | |] eqn:Ha; try discriminate.
    destruct F1 as [F1a F1b]. destruct F2 as [F2a F2b]. destruct SC as [SCa SCb].
    destruct V1 as [V1a V1b]. destruct V2 as [V2a V2b].
    apply rel2_app with Q1.
    + now apply (IHa Q Q1 Ha x1 x2).
    + intros p1 p2 P1 P2. now apply (IHb Q1 Q' H y1 y2).
  - (* Choice *)
    destruct (analyze_diag a Q) as [Qa| | |] eqn:Ha; try discriminate.
    destruct (analyze_diag b Q) as [Qb| | |] eqn:Hb; try discriminate.
    injection H as <-.
    destruct tr1 as [| | |x1|y1|]; try contradiction; destruct tr2 as [| | |x2|y2|]; try contradiction;
      cbn [render fits same_control values_ok] in *.
    + apply rel2_weaken with Qa; [now apply (IHa Q Qa Ha x1 x2)|].
      intros x Hx. apply union_st_In. now left.
    + apply rel2_weaken with Qb; [now apply (IHb Q Qb Hb y1 y2)|].
      intros x Hx. apply union_st_In. now right.
  - (* Star *)
    destruct tr1 as [| | | | |l1]; try contradiction. destruct tr2 as [| | | | |l2]; try contradiction.
    cbn [render fits same_control values_ok] in *.
    destruct (star_loop_inv _ _ _ _ H) as [Hsub (Q'' & Hbody & Hback)].
    assert (I1 : In q1 Q') by now apply Hsub, norm_st_In.
    assert (I2 : In q2 Q') by now apply Hsub, norm_st_In.
    clear H H1 H2 Hsub. revert q1 q2 I1 I2 F1 F2 V1 V2.
    induction SC as [|x1 x2 l1 l2 SCx SCl IHl]; intros q1 q2 I1 I2 F1 F2 V1 V2.
    + cbn. now apply rel2_nil.
    + inversion F1 as [|? ? F1x F1l]; subst. inversion F2 as [|? ? F2x F2l]; subst.
      inversion V1 as [|? ? V1x V1l]; subst. inversion V2 as [|? ? V2x V2l]; subst.
      cbn [map concat_str fold_right].
      apply rel2_app with Q'.
      * apply rel2_weaken with Q''; [|assumption]. now apply (IHa Q' Q'' Hbody x1 x2).
      * intros p1 p2 P1 P2. now apply IHl.
Qed.

Lemma analyze_diag_ok_iff : forall t Q Q', analyze_diag t Q = DOk Q' <-> analyze t Q = Some Q'.
Proof.
  intros t Q Q'. unfold analyze. split.
  - intros ->. reflexivity.
  - destruct (analyze_diag t Q); intro H; try discriminate. now injection H as ->.
Qed.

(* the statement in the form of the design document *)
Theorem analyze_sound : forall t Q Q',
    analyze t Q = Some Q' ->
    forall tr1 tr2, fits t tr1 -> fits t tr2 -> same_control t tr1 tr2 ->
                    values_ok t tr1 -> values_ok t tr2 ->
    forall q1 q2, In q1 Q -> In q2 Q ->
      let (q1', e1) := run q1 (render t tr1) in
      let (q2', e2) := run q2 (render t tr2) in
      structural e1 = structural e2 /\ In q1' Q' /\ In q2' Q' /\
      no_err e1 = true /\ no_err e2 = true.
Proof.
  intros t Q Q' H tr1 tr2 F1 F2 SC V1 V2 q1 q2 H1 H2.
  apply analyze_diag_ok_iff in H.
  pose proof (analyze_diag_sound t Q Q' H tr1 tr2 F1 F2 SC V1 V2 q1 q2 H1 H2) as R.
  unfold rel2 in R.
  destruct (run q1 (render t tr1)) as [q1' e1]. destruct (run q2 (render t tr2)) as [q2' e2].
  exact R.
Qed.

(* ---------------------------------------------------------------- corollaries *)

Lemma same_control_refl : forall t tr, fits t tr -> same_control t tr tr.
Proof.
  induction t as [s|id c|a IHa b IHb|a IHa b IHb|a IHa]; intros tr F;
    destruct tr as [|v|x y|x|y|l]; cbn [fits same_control] in *; try contradiction; auto.
  - now destruct (is_control c).
  - destruct F. split; auto.
  - induction F; constructor; auto.
Qed.

Theorem structure_invariant : forall t Q',
    analyze t [QBetween] = Some Q' ->
    (forall q, In q Q' -> final_ok q = true) ->
    forall tr1 tr2, fits t tr1 -> fits t tr2 -> same_control t tr1 tr2 ->
                    values_ok t tr1 -> values_ok t tr2 ->
      structural (snd (run QBetween (render t tr1))) = structural (snd (run QBetween (render t tr2))) /\
      events_ok (render t tr1) = true /\ events_ok (render t tr2) = true.
Proof.
  intros t Q' H Hfin tr1 tr2 F1 F2 SC V1 V2. apply analyze_diag_ok_iff in H.
  assert (I : In QBetween [QBetween]) by now left.
  destruct (analyze_diag_sound t _ Q' H tr1 tr2 F1 F2 SC V1 V2 _ _ I I) as (R1 & R2 & R3 & R4 & R5).
  split; [exact R1|]. unfold events_ok.
  destruct (run QBetween (render t tr1)) as [p1 e1]. destruct (run QBetween (render t tr2)) as [p2 e2].
  cbn [fst snd] in *. now rewrite (Hfin _ R2), (Hfin _ R3), R4, R5.
Qed.

Theorem file_ok_invariant : forall t,
    file_ok t = true ->
    forall tr1 tr2, fits t tr1 -> fits t tr2 -> same_control t tr1 tr2 ->
                    values_ok t tr1 -> values_ok t tr2 ->
      structural (snd (run QBetween (render t tr1))) = structural (snd (run QBetween (render t tr2))) /\
      events_ok (render t tr1) = true /\ events_ok (render t tr2) = true.
Proof.
  intros t H. unfold file_ok in H. destruct (analyze t [QBetween]) as [Q'|] eqn:Ha; [|discriminate].
  rewrite forallb_forall in H. now apply structure_invariant with Q'.
Qed.

(* one rendering at a time: it is lexically well formed *)
Theorem rendering_wellformed : forall t,
    file_ok t = true ->
    forall tr, fits t tr -> values_ok t tr -> events_ok (render t tr) = true.
Proof.
  intros t H tr F V.
  destruct (file_ok_invariant t H tr tr F F (same_control_refl t tr F) V V) as (_ & R & _).
  exact R.
Qed.
