(* Invariants of the arbitration model over all histories:
   - the object maps are the last write per key (objs_after);
   - hosts / listener hosts are a function of the object maps (rebuild from scratch);
   - the owner of a host is the least claimant. *)
From Coq Require Import List ZArith String Ascii Bool Lia.
From NIC Require Import Base.SMap Arb.Types Arb.Model Arb.Spec Arb.WinsProofs.
Import ListNotations.
Open Scope Z_scope.

(* ---------- generic list / map lemmas ---------- *)

Lemma in_filter_map {A B} (f : A -> option B) l y :
  In y (filter_map f l) <-> exists x, In x l /\ f x = Some y.
Proof.
  induction l as [|a l IH]; cbn.
  - split; [tauto|intros (x & [] & _)].
  - destruct (f a) as [b|] eqn:Hf; cbn; rewrite IH; split.
    + intros [<-|(x & Hx & Hy)]; eauto.
    + intros (x & [<-|Hx] & Hy); [left; congruence|eauto].
    + intros (x & Hx & Hy); eauto.
    + intros (x & [<-|Hx] & Hy); [congruence|eauto].
Qed.

Lemma remove_absent {A} k (m : smap A) : lookup k m = None -> remove k m = m.
Proof.
  induction m as [|[k' v] r IH]; cbn; [reflexivity|].
  destruct (String.eqb k k'); [discriminate|]. intros H. f_equal. auto.
Qed.

Lemma mem_false_lookup {A} k (m : smap A) : mem k m = false -> lookup k m = None.
Proof. unfold mem. destruct (lookup k m); [discriminate|reflexivity]. Qed.

Lemma fold_insert_lookup {A} (l : list (string * A)) : forall m k r,
  lookup k (fold_left (fun m kv => insert (fst kv) (snd kv) m) l m) = Some r ->
  In (k, r) l \/ lookup k m = Some r.
Proof.
  induction l as [|[k' v] l IH]; intros m k r H; cbn in *; [auto|].
  apply IH in H. destruct H as [H|H]; [auto|].
  destruct (string_dec k k') as [->|Hne].
  - rewrite lookup_insert_eq in H. inversion H; subst. auto.
  - rewrite lookup_insert_neq in H by assumption. auto.
Qed.

Lemma of_list_lookup_in {A} (l : list (string * A)) k r : lookup k (of_list l) = Some r -> In (k, r) l.
Proof. unfold of_list. intros H. apply fold_insert_lookup in H. destruct H as [H|H]; [exact H|discriminate]. Qed.

Lemma fold_insert_some {A} (l : list (string * A)) : forall m k,
  (In k (map fst l) \/ lookup k m <> None) ->
  lookup k (fold_left (fun m kv => insert (fst kv) (snd kv) m) l m) <> None.
Proof.
  induction l as [|[k' v] l IH]; intros m k H; cbn in *.
  - destruct H as [[]|H]; exact H.
  - apply IH. destruct H as [[<-|H]|H]; auto.
    + right. rewrite lookup_insert_eq. discriminate.
    + right. destruct (string_dec k k') as [->|Hne].
      * rewrite lookup_insert_eq. discriminate.
      * rewrite lookup_insert_neq by assumption. exact H.
Qed.

Lemma of_list_in_some {A} (l : list (string * A)) k : In k (map fst l) -> lookup k (of_list l) <> None.
Proof. intros H. apply fold_insert_some. auto. Qed.

(* lookup through a filter_map that keeps keys, on a well-formed map *)
Lemma lookup_filter_map_keys {A B} (g : A -> option B) (m : smap A) h :
  wf m ->
  lookup h (filter_map (fun kv => match g (snd kv) with Some r => Some (fst kv, r) | None => None end) m) =
  match lookup h m with Some v => g v | None => None end.
Proof.
  induction 1 as [|k v r Hwf IH Hab]; cbn; [reflexivity|].
  destruct (String.eqb h k) eqn:Hk.
  - apply String.eqb_eq in Hk. subst k. destruct (g v) as [b|]; cbn.
    + rewrite String.eqb_refl. reflexivity.
    + rewrite IH. rewrite lookup_above by assumption. reflexivity.
  - destruct (g v) as [b|]; cbn; [rewrite Hk|]; exact IH.
Qed.

(* ---------- the object maps are the last write ---------- *)

Lemma objs_rebuild_hosts c s : objs_of_state (fst (fst (rebuild_hosts c s))) = objs_of_state s.
Proof. reflexivity. Qed.

Lemma objs_rebuild_listeners s : objs_of_state (fst (fst (rebuild_listeners s))) = objs_of_state s.
Proof. reflexivity. Qed.

Lemma objs_rebuild_ts c s : objs_of_state (fst (fst (rebuild_ts c s))) = objs_of_state s.
Proof. unfold rebuild_ts. destruct (tls_passthrough c); reflexivity. Qed.

Lemma objs_rebuild_gc c s : objs_of_state (fst (fst (rebuild_gc c s))) = objs_of_state s.
Proof. reflexivity. Qed.

Lemma objs_with_error b k u out : fst (fst (with_validation_error b k u out)) = fst (fst out).
Proof.
  destruct out as [[s cs] ps]. unfold with_validation_error. destruct b; [|reflexivity].
  destruct (attach_error k cs); reflexivity.
Qed.

Lemma step_objs c s e : objs_of_state (step_state c s e) = apply_event (objs_of_state s) e.
Proof.
  unfold step_state. destruct e; cbn [step apply_event].
  - rewrite objs_with_error, objs_rebuild_hosts. reflexivity.
  - destruct (mem key (ings s)) eqn:Hm.
    + rewrite objs_rebuild_hosts. reflexivity.
    + cbn. rewrite remove_absent by (apply mem_false_lookup; exact Hm). reflexivity.
  - rewrite objs_with_error, objs_rebuild_hosts. reflexivity.
  - destruct (mem key (vss s)) eqn:Hm.
    + rewrite objs_rebuild_hosts. reflexivity.
    + cbn. rewrite remove_absent by (apply mem_false_lookup; exact Hm). reflexivity.
  - set (s' := set_vsrs s _). change (objs_of_state (fst (fst (let '(s2, cs, ps) := rebuild_hosts c s' in
        (s2, cs, if cls && negb valid then ps +++ [mkP (vsr_pkey r) (m_uid (r_meta r)) true rejected "invalid"] else ps))))
        = apply_event (objs_of_state s) (EVSR r cls valid)).
    destruct (rebuild_hosts c s') as [[s2 cs] ps] eqn:Hr. cbn [fst].
    change s2 with (fst (fst (s2, cs, ps))). rewrite <- Hr, objs_rebuild_hosts. reflexivity.
  - destruct (mem key (vsrs s)) eqn:Hm.
    + rewrite objs_rebuild_hosts. reflexivity.
    + cbn. rewrite remove_absent by (apply mem_false_lookup; exact Hm). reflexivity.
  - rewrite objs_with_error, objs_rebuild_ts. reflexivity.
  - destruct (mem key (tss s)) eqn:Hm.
    + rewrite objs_rebuild_ts. reflexivity.
    + cbn. rewrite remove_absent by (apply mem_false_lookup; exact Hm). reflexivity.
  - rewrite objs_rebuild_gc. reflexivity.
  - rewrite objs_rebuild_gc. reflexivity.
Qed.

Theorem run_objs c es : objs_of_state (run c es) = objs_after es.
Proof.
  unfold run, objs_after. change objs0 with (objs_of_state init). generalize init.
  induction es as [|e es IH]; intros s; [reflexivity|]. cbn [fold_left]. rewrite IH, step_objs. reflexivity.
Qed.

(* ---------- hosts and listener hosts are a function of the object maps ---------- *)

Definition hosts_of_objs (c : cfg) (o : objs) : smap resource :=
  b_hosts (build c (o_ings o) (o_vss o) (o_vsrs o) (o_tss o) (o_gc o)).
Definition lhosts_of_objs (o : objs) : smap ts_cfg := lb_hosts (build_listeners (o_gc o) (o_tss o)).

Definition fn_inv (c : cfg) (s : state) : Prop :=
  hosts s = hosts_of_objs c (objs_of_state s) /\ lhosts s = lhosts_of_objs (objs_of_state s).

Lemma build_indep_tss c is_ vs_ rs t1 t2 g :
  tls_passthrough c = false -> build c is_ vs_ rs t1 g = build c is_ vs_ rs t2 g.
Proof. intros H. unfold build, all_claims, ts_claims. rewrite H. reflexivity. Qed.

Lemma fn_inv_init c : fn_inv c init.
Proof. split; [|reflexivity]. unfold hosts_of_objs, build, all_claims, ts_claims. cbn. destruct (tls_passthrough c); reflexivity. Qed.

Lemma hosts_rebuild_hosts c s :
  hosts (fst (fst (rebuild_hosts c s))) = hosts_of_objs c (objs_of_state s).
Proof. reflexivity. Qed.
Lemma lhosts_rebuild_hosts c s : lhosts (fst (fst (rebuild_hosts c s))) = lhosts s.
Proof. reflexivity. Qed.
Lemma hosts_rebuild_listeners s : hosts (fst (fst (rebuild_listeners s))) = hosts s.
Proof. reflexivity. Qed.
Lemma lhosts_rebuild_listeners s :
  lhosts (fst (fst (rebuild_listeners s))) = lhosts_of_objs (objs_of_state s).
Proof. reflexivity. Qed.

Lemma fn_inv_rebuild_hosts c s :
  lhosts s = lhosts_of_objs (objs_of_state s) -> fn_inv c (fst (fst (rebuild_hosts c s))).
Proof.
  intros H. split.
  - rewrite hosts_rebuild_hosts, objs_rebuild_hosts. reflexivity.
  - rewrite lhosts_rebuild_hosts, objs_rebuild_hosts. exact H.
Qed.

Lemma fn_inv_rebuild_gc c s : fn_inv c (fst (fst (rebuild_gc c s))).
Proof.
  unfold rebuild_gc. destruct (rebuild_listeners s) as [[s1 c1] p1] eqn:H1.
  destruct (rebuild_hosts c s1) as [[s2 c2] p2] eqn:H2. cbn [fst].
  change s2 with (fst (fst (s2, c2, p2))). rewrite <- H2. apply fn_inv_rebuild_hosts.
  change s1 with (fst (fst (s1, c1, p1))). rewrite <- H1.
  rewrite lhosts_rebuild_listeners, objs_rebuild_listeners. reflexivity.
Qed.

Lemma fn_inv_rebuild_ts c s :
  (tls_passthrough c = false -> hosts s = hosts_of_objs c (objs_of_state s)) ->
  fn_inv c (fst (fst (rebuild_ts c s))).
Proof.
  intros Hh. unfold rebuild_ts. destruct (rebuild_listeners s) as [[s1 c1] p1] eqn:H1.
  assert (Hs1 : s1 = fst (fst (rebuild_listeners s))) by (rewrite H1; reflexivity).
  destruct (tls_passthrough c) eqn:Ht.
  - destruct (rebuild_hosts c s1) as [[s2 c2] p2] eqn:H2. cbn [fst].
    change s2 with (fst (fst (s2, c2, p2))). rewrite <- H2. apply fn_inv_rebuild_hosts.
    rewrite Hs1, lhosts_rebuild_listeners, objs_rebuild_listeners. reflexivity.
  - cbn [fst]. rewrite Hs1. split.
    + rewrite hosts_rebuild_listeners, objs_rebuild_listeners. apply Hh. reflexivity.
    + rewrite lhosts_rebuild_listeners, objs_rebuild_listeners. reflexivity.
Qed.

Lemma fn_inv_step c s e : fn_inv c s -> fn_inv c (step_state c s e).
Proof.
  intros [Hh Hl]. unfold step_state. destruct e; cbn [step].
  - rewrite objs_with_error. apply fn_inv_rebuild_hosts. exact Hl.
  - destruct (mem key (ings s)); [apply fn_inv_rebuild_hosts; exact Hl|split; assumption].
  - rewrite objs_with_error. apply fn_inv_rebuild_hosts. exact Hl.
  - destruct (mem key (vss s)); [apply fn_inv_rebuild_hosts; exact Hl|split; assumption].
  - set (s' := set_vsrs s _).
    destruct (rebuild_hosts c s') as [[s2 cs] ps] eqn:Hr. cbn [fst].
    change s2 with (fst (fst (s2, cs, ps))). rewrite <- Hr. apply fn_inv_rebuild_hosts. exact Hl.
  - destruct (mem key (vsrs s)); [apply fn_inv_rebuild_hosts; exact Hl|split; assumption].
  - rewrite objs_with_error. apply fn_inv_rebuild_ts. intros Ht. cbn.
    rewrite Hh. unfold hosts_of_objs. cbn. apply f_equal. apply build_indep_tss. exact Ht.
  - destruct (mem key (tss s)); [|split; assumption].
    apply fn_inv_rebuild_ts. intros Ht. cbn.
    rewrite Hh. unfold hosts_of_objs. cbn. apply f_equal. apply build_indep_tss. exact Ht.
  - apply fn_inv_rebuild_gc.
  - apply fn_inv_rebuild_gc.
Qed.

Theorem run_fn_inv c es : fn_inv c (run c es).
Proof.
  unfold run. assert (H := fn_inv_init c). revert H. generalize init.
  induction es as [|e es IH]; intros s H; [exact H|]. cbn [fold_left]. apply IH, fn_inv_step, H.
Qed.

Theorem hosts_function_of_objs c es :
  hosts (run c es) = hosts_of_objs c (objs_after es) /\ lhosts (run c es) = lhosts_of_objs (objs_after es).
Proof. destruct (run_fn_inv c es) as [H1 H2]. rewrite run_objs in H1, H2. auto. Qed.

(* the answer to GetResources, and with it every attribute a change carries, depends on the
   history only through the final object set *)
Theorem order_independent c es1 es2 :
  objs_after es1 = objs_after es2 ->
  hosts (run c es1) = hosts (run c es2) /\ lhosts (run c es1) = lhosts (run c es2) /\
  get_resources (run c es1) = get_resources (run c es2).
Proof.
  intros H. destruct (hosts_function_of_objs c es1) as [A1 B1].
  destruct (hosts_function_of_objs c es2) as [A2 B2].
  assert (Hh : hosts (run c es1) = hosts (run c es2)) by congruence.
  assert (Hl : lhosts (run c es1) = lhosts (run c es2)) by congruence.
  repeat split; auto. unfold get_resources. rewrite Hh, Hl. reflexivity.
Qed.
