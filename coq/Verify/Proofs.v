(* C13 -- proofs about Verify/Model.v, for arbitrary (infinite) response schedules,
   arbitrary timeouts and arbitrary fuel. *)
From Coq Require Import List ZArith String Ascii Bool Lia.
From NIC Require Import Verify.Model.
Import ListNotations.
Open Scope Z_scope.

Lemma start_time_S sched t0 j :
  start_time sched t0 (S j) =
  start_time sched t0 j + lat (sched j) +
  match classify (sched j) with None => 0 | Some _ => interval end.
Proof. reflexivity. Qed.

(* ---- soundness of an acknowledgement ---- *)
Lemma wait_acked_gen sched e D t0 :
  forall fuel i k,
    wait fuel sched e D (start_time sched t0 i) i = Acked k ->
    (i <= k)%nat /\ classify (sched k) = Some e /\ start_time sched t0 k < D /\
    forall j, (i <= j < k)%nat -> classify (sched j) <> Some e /\ start_time sched t0 j < D.
Proof.
  induction fuel as [|f IH]; intros i k H; cbn [wait] in H.
  - destruct (start_time sched t0 i <? D); discriminate.
  - destruct (start_time sched t0 i <? D) eqn:Hlt; [|discriminate].
    apply Z.ltb_lt in Hlt.
    destruct (classify (sched i)) as [v|] eqn:Hc.
    + destruct (v =? e) eqn:Hv.
      * apply Z.eqb_eq in Hv. inversion H; subst.
        split; [lia|]. split; [exact Hc|]. split; [exact Hlt|]. intros j Hj; lia.
      * apply Z.eqb_neq in Hv.
        assert (Hs : start_time sched t0 (S i) = start_time sched t0 i + lat (sched i) + interval)
          by (rewrite start_time_S, Hc; reflexivity).
        rewrite <- Z.add_assoc in H.
        replace (start_time sched t0 i + (lat (sched i) + interval))
          with (start_time sched t0 (S i)) in H by lia.
        destruct (IH _ _ H) as (Hle & Hk & Hst & Hall).
        split; [lia|]. split; [exact Hk|]. split; [exact Hst|].
        intros j Hj. destruct (Nat.eq_dec j i) as [->|Hne];
          [ split; [rewrite Hc; congruence|exact Hlt] | apply Hall; lia ].
    + assert (Hs : start_time sched t0 (S i) = start_time sched t0 i + lat (sched i))
        by (rewrite start_time_S, Hc; lia).
      rewrite <- Hs in H.
      destruct (IH _ _ H) as (Hle & Hk & Hst & Hall).
      split; [lia|]. split; [exact Hk|]. split; [exact Hst|].
      intros j Hj. destruct (Nat.eq_dec j i) as [->|Hne];
        [ split; [rewrite Hc; congruence|exact Hlt] | apply Hall; lia ].
Qed.

(* ---- a time-out means nothing that started before the deadline carried the version ---- *)
Lemma wait_timedout_gen sched e D t0 :
  forall fuel i n,
    wait fuel sched e D (start_time sched t0 i) i = TimedOut n ->
    (i <= n)%nat /\ D <= start_time sched t0 n /\
    forall j, (i <= j < n)%nat -> classify (sched j) <> Some e /\ start_time sched t0 j < D.
Proof.
  induction fuel as [|f IH]; intros i n H; cbn [wait] in H.
  - destruct (start_time sched t0 i <? D) eqn:Hlt; [discriminate|].
    apply Z.ltb_ge in Hlt. inversion H; subst.
    split; [lia|]. split; [exact Hlt|]. intros j Hj; lia.
  - destruct (start_time sched t0 i <? D) eqn:Hlt.
    2:{ apply Z.ltb_ge in Hlt. inversion H; subst.
        split; [lia|]. split; [exact Hlt|]. intros j Hj; lia. }
    apply Z.ltb_lt in Hlt.
    destruct (classify (sched i)) as [v|] eqn:Hc.
    + destruct (v =? e) eqn:Hv; [discriminate|].
      apply Z.eqb_neq in Hv.
      rewrite <- Z.add_assoc in H.
      replace (start_time sched t0 i + (lat (sched i) + interval))
        with (start_time sched t0 (S i)) in H by (rewrite start_time_S, Hc; lia).
      destruct (IH _ _ H) as (Hle & Hst & Hall).
      split; [lia|]. split; [exact Hst|].
      intros j Hj. destruct (Nat.eq_dec j i) as [->|Hne];
        [ split; [rewrite Hc; congruence|exact Hlt] | apply Hall; lia ].
    + replace (start_time sched t0 i + lat (sched i))
        with (start_time sched t0 (S i)) in H by (rewrite start_time_S, Hc; lia).
      destruct (IH _ _ H) as (Hle & Hst & Hall).
      split; [lia|]. split; [exact Hst|].
      intros j Hj. destruct (Nat.eq_dec j i) as [->|Hne];
        [ split; [rewrite Hc; congruence|exact Hlt] | apply Hall; lia ].
Qed.

(* ---- completeness: the first matching answer whose request starts in time is taken ---- *)
Lemma wait_complete_gen sched e D t0 :
  forall fuel i k,
    (i <= k)%nat -> (k - i < fuel)%nat ->
    classify (sched k) = Some e ->
    (forall j, (i <= j <= k)%nat -> start_time sched t0 j < D) ->
    (forall j, (i <= j < k)%nat -> classify (sched j) <> Some e) ->
    wait fuel sched e D (start_time sched t0 i) i = Acked k.
Proof.
  induction fuel as [|f IH]; intros i k Hik Hf Hk Hst Hne; [lia|].
  cbn [wait].
  assert (Hlt : start_time sched t0 i <? D = true) by (apply Z.ltb_lt, Hst; lia).
  rewrite Hlt.
  destruct (Nat.eq_dec i k) as [->|Hneq].
  - rewrite Hk, Z.eqb_refl. reflexivity.
  - destruct (classify (sched i)) as [v|] eqn:Hc.
    + destruct (v =? e) eqn:Hv.
      * apply Z.eqb_eq in Hv; subst. exfalso. apply (Hne i); [lia|assumption].
      * rewrite <- Z.add_assoc.
        replace (start_time sched t0 i + (lat (sched i) + interval))
          with (start_time sched t0 (S i)) by (rewrite start_time_S, Hc; lia).
        apply IH; auto; try lia; intros; [apply Hst|apply Hne]; lia.
    + replace (start_time sched t0 i + lat (sched i))
        with (start_time sched t0 (S i)) by (rewrite start_time_S, Hc; lia).
      apply IH; auto; try lia; intros; [apply Hst|apply Hne]; lia.
Qed.

(* ---- fuel: with latencies of at least one millisecond the loop ends by itself ---- *)
Lemma wait_fuel_enough sched e D :
  (forall i, 1 <= lat (sched i)) ->
  forall fuel now i, D - now <= Z.of_nat fuel ->
    wait fuel sched e D now i <> OutOfFuel.
Proof.
  intros Hlat. induction fuel as [|f IH]; intros now i Hf; cbn [wait].
  - destruct (now <? D) eqn:Hlt; [apply Z.ltb_lt in Hlt; lia|discriminate].
  - destruct (now <? D) eqn:Hlt; [|discriminate].
    pose proof (Hlat i) as Hl.
    destruct (classify (sched i)) as [v|].
    + destruct (v =? e); [discriminate|]. apply IH. unfold interval. lia.
    + apply IH. lia.
Qed.

(* ---- the property, stated from the start of a poll (t0 = 0, request 0) ---- *)
Theorem ack_only_on_exact sched e D fuel k :
  wait fuel sched e D 0 0 = Acked k ->
  classify (sched k) = Some e /\ start_time sched 0 k < D /\
  forall j, (j < k)%nat -> classify (sched j) <> Some e.
Proof.
  intros H. change 0 with (start_time sched 0 0) in H at 1.
  destruct (wait_acked_gen _ _ _ _ _ _ _ H) as (_ & Hk & Hst & Hall).
  repeat split; auto. intros j Hj. apply Hall. lia.
Qed.

Theorem timeout_means_never_seen sched e D fuel n :
  wait fuel sched e D 0 0 = TimedOut n ->
  D <= start_time sched 0 n /\
  forall j, (j < n)%nat -> classify (sched j) <> Some e.
Proof.
  intros H. change 0 with (start_time sched 0 0) in H at 1.
  destruct (wait_timedout_gen _ _ _ _ _ _ _ H) as (_ & Hst & Hall).
  split; auto. intros j Hj. apply Hall. lia.
Qed.

Lemma start_time_mono sched t0 :
  (forall i, 0 <= lat (sched i)) ->
  forall i j, (i <= j)%nat -> start_time sched t0 i <= start_time sched t0 j.
Proof.
  intros Hlat i j Hij. induction Hij as [|j Hij IH]; [lia|].
  rewrite start_time_S. pose proof (Hlat j).
  destruct (classify (sched j)); unfold interval; lia.
Qed.

(* If no request that starts before the deadline is answered with the expected version,
   the wait fails (never acknowledges), whatever else is answered. *)
Theorem timeout_fails sched e D fuel :
  (forall i, 0 <= lat (sched i)) ->
  (forall j, start_time sched 0 j < D -> classify (sched j) <> Some e) ->
  forall k, wait fuel sched e D 0 0 <> Acked k.
Proof.
  intros Hlat Hno k H. apply ack_only_on_exact in H. destruct H as (Hk & Hst & _).
  exact (Hno k Hst Hk).
Qed.

Theorem first_timely_match_acknowledged sched e D fuel k :
  (forall i, 0 <= lat (sched i)) ->
  (k < fuel)%nat ->
  classify (sched k) = Some e -> start_time sched 0 k < D ->
  (forall j, (j < k)%nat -> classify (sched j) <> Some e) ->
  wait fuel sched e D 0 0 = Acked k.
Proof.
  intros Hlat Hf Hk Hst Hne. change 0 with (start_time sched 0 0) at 1.
  apply wait_complete_gen; auto; try lia.
  - intros j Hj. pose proof (start_time_mono sched 0 Hlat j k ltac:(lia)). lia.
  - intros j Hj. apply Hne. lia.
Qed.

(* stale versions, errors, non-200 answers and garbage never count *)
Theorem only_exact_200_counts r e :
  classify r = Some e -> exists body l, r = Http 200 body l /\ atoi body = Some e.
Proof.
  destruct r as [l|st body l]; cbn; [discriminate|].
  destruct (st =? 200) eqn:Hs; [|discriminate].
  apply Z.eqb_eq in Hs; subst. intros H. eauto.
Qed.

(* ---- reload counter ---- *)
Lemma reload_version T f m ok sched :
  let '(m', v, _) := reload T f m ok sched in v = version m + 1 /\ version m' = v.
Proof.
  unfold reload. destruct ok; [destruct (wait _ _ _ _ _ _)|]; cbn; auto.
Qed.

Theorem reloads_versions T f :
  forall script m,
    map fst (reloads T f m script) =
    map (fun k => version m + Z.of_nat k) (seq 1 (List.length script)).
Proof.
  induction script as [|[ok sched] rest IH]; intros m; [reflexivity|].
  cbn [reloads List.length seq map].
  pose proof (reload_version T f m ok sched) as Hr.
  destruct (reload T f m ok sched) as [[m' v] res]. destruct Hr as [Hv Hm'].
  cbn [map fst]. rewrite IH, Hm', Hv. f_equal; try lia.
  rewrite <- (seq_shift (List.length rest) 1), map_map. apply map_ext. intros k. lia.
Qed.

(* every reload is tagged with a version strictly greater than all earlier ones,
   whatever the outcomes of the earlier reloads were *)
Theorem versions_strictly_increase T f m script i j vi vj :
  (i < j)%nat ->
  nth_error (map fst (reloads T f m script)) i = Some vi ->
  nth_error (map fst (reloads T f m script)) j = Some vj ->
  version m < vi < vj.
Proof.
  rewrite reloads_versions. intros Hij Hi Hj.
  rewrite nth_error_map in Hi, Hj.
  destruct (nth_error (seq 1 (List.length script)) i) as [a|] eqn:Ha; [|discriminate].
  destruct (nth_error (seq 1 (List.length script)) j) as [b|] eqn:Hb; [|discriminate].
  cbn in Hi, Hj. inversion Hi; inversion Hj; subst.
  assert (Hli : (i < List.length (seq 1 (List.length script)))%nat)
    by (apply nth_error_Some; congruence).
  assert (Hlj : (j < List.length (seq 1 (List.length script)))%nat)
    by (apply nth_error_Some; congruence).
  rewrite seq_length in Hli, Hlj.
  rewrite (nth_error_nth' _ 0%nat) in Ha by (rewrite seq_length; exact Hli).
  rewrite (nth_error_nth' _ 0%nat) in Hb by (rewrite seq_length; exact Hlj).
  rewrite seq_nth in Ha, Hb by assumption.
  inversion Ha; inversion Hb; subst. lia.
Qed.

Theorem reload_ok_confirmed T f m sched m' v :
  reload T f m true sched = (m', v, ReloadOk) ->
  v = version m + 1 /\
  exists k, classify (sched k) = Some v /\ start_time sched 0 k < T /\
            forall j, (j < k)%nat -> classify (sched j) <> Some v.
Proof.
  unfold reload. destruct (wait f sched (version m + 1) T 0 0) as [k| |] eqn:Hw;
    intros H; inversion H; subst.
  split; [reflexivity|]. exists k. apply ack_only_on_exact in Hw. exact Hw.
Qed.

(* ---- API guard ---- *)
Theorem api_guarded m check h :
  plus_update m check = ApiCall h ->
  h = version m /\ exists body l, check = Http 200 body l.
Proof.
  destruct check as [l|st body l]; cbn; [discriminate|].
  destruct (st =? 200) eqn:Hs; [|discriminate].
  apply Z.eqb_eq in Hs; subst. intros H; inversion H. eauto.
Qed.
