(* C10 -- Files on disk are in one-to-one correspondence with the resources being served.
   Only statements, each closed by [exact], each followed by Print Assumptions.

   Model: Files/Model.v (run_events: histories of Configurator operations and restarts over a disk),
   declarative side: Files/Spec.v (spec_events: what is being served; disk_matches / hosts_exact).
   [cl] is the model variant: false = current code, true = with the proposed fix fixes/F33.diff. *)
From Coq Require Import List ZArith String Ascii Bool.
From NIC Require Import Base.SMap Files.Model Files.Spec Names.FileNames Files.Proofs.
Import ListNotations.
Open Scope string_scope.

(* ---------- naming ---------- *)

(* For ALL strings: if the separator byte does not occur in the first components, a ++ sep ++ b
   determines (a, b). *)
Theorem C10_sep_concat_injective :
  forall (sep : ascii) (a a' b b' : string),
    occurs sep a = false -> occurs sep a' = false ->
    a ++ String sep b = a' ++ String sep b' -> a = a' /\ b = b'.
Proof. exact sep_concat_injective. Qed.
Print Assumptions C10_sep_concat_injective.

(* vs_<ns>_<name> and ts_<ns>_<name> are injective over all strings made of DNS-1123 bytes
   (a superset of the DNS-1123 labels and subdomains: see subdomain_chars, label_chars). *)
Theorem C10_vs_file_name_injective :
  forall ns name ns' name',
    dns_chars ns = true -> dns_chars name = true -> dns_chars ns' = true -> dns_chars name' = true ->
    vs_file ns name = vs_file ns' name' -> ns = ns' /\ name = name'.
Proof. exact vs_file_name_injective. Qed.
Print Assumptions C10_vs_file_name_injective.

Theorem C10_ts_file_name_injective :
  forall ns name ns' name',
    dns_chars ns = true -> dns_chars name = true -> dns_chars ns' = true -> dns_chars name' = true ->
    ts_file ns name = ts_file ns' name' -> ns = ns' /\ name = name'.
Proof. exact ts_file_name_injective. Qed.
Print Assumptions C10_ts_file_name_injective.

(* the name a resource is deleted under (computed from its key ns/name) is the name it was written under *)
Theorem C10_delete_name_agrees :
  forall ns name, occurs "/"%char ns = false -> occurs "/"%char name = false ->
    key_to_file (ns_name_key ns name) = ingress_file ns name /\
    vs_file_from_key (ns_name_key ns name) = vs_file ns name /\
    ts_file_from_key (ns_name_key ns name) = ts_file ns name.
Proof. exact delete_name_agrees. Qed.
Print Assumptions C10_delete_name_agrees.

(* REFUTED (F08): the Ingress scheme <ns>-<name> is not injective on DNS-1123 names. *)
Theorem C10_ingress_file_name_refuted :
  exists ns1 n1 ns2 n2,
    dns1123_label ns1 = true /\ dns1123_subdomain n1 = true /\ dns1123_label ns2 = true /\ dns1123_subdomain n2 = true /\
    (ns1, n1) <> (ns2, n2) /\
    ingress_file ns1 n1 = ingress_file ns2 n2 /\
    key_to_file (ns_name_key ns1 n1) = key_to_file (ns_name_key ns2 n2).
Proof. exact ingress_file_name_refuted. Qed.
Print Assumptions C10_ingress_file_name_refuted.

(* REFUTED (F97): DNS-legal names exist whose file names exceed NAME_MAX (255 bytes): the file cannot be
   created at all (the real LocalManager then ends the process).  All theorems below are about the
   naming schemes as functions on strings; on the real file system they apply to names that fit. *)
Theorem C10_file_name_length_refuted :
  exists ns name,
    dns1123_label ns = true /\ dns1123_subdomain name = true /\
    Nat.ltb 255 (String.length (conf_path (vs_file ns name))) = true /\
    Nat.ltb 255 (String.length (conf_path (ts_file ns name))) = true /\
    Nat.ltb 255 (String.length (conf_path (ingress_file ns name))) = true.
Proof. exact file_name_length_refuted. Qed.
Print Assumptions C10_file_name_length_refuted.

(* ... and at the level of histories: some served Ingress ends up without a file. *)
Theorem C10_ingress_collision_refuted :
  exists evs r i,
    (forall q, In q (all_targets evs) -> legal q) /\
    forall cl, aget r (spec_events evs []) = Some i /\
               lookup (path_of r) (confd (dk (run_events cl evs world0))) = None.
Proof. exact ingress_collision_refuted. Qed.
Print Assumptions C10_ingress_collision_refuted.

(* ---------- the directories ---------- *)

(* For EVERY history of Configurator operations (no restart), over any set R of resources on which
   the file naming is injective (explicit hypothesis) and whose names contain no slash: conf.d and
   stream-conf.d hold exactly one file per served resource, carrying its latest content, and nothing else. *)
Theorem C10_disk_refines_served :
  forall (cl : bool) (R : list rid) (ops : list op),
    inj_on R -> (forall r, In r R -> slashfree r) -> Forall (targets_in R) (map Op ops) ->
    disk_matches (dk (run_events cl (map Op ops) world0)) (spec_events (map Op ops) []).
Proof. exact disk_refines_served. Qed.
Print Assumptions C10_disk_refines_served.

(* A delete removes the file of its resource and nothing else, in every reachable state. *)
Theorem C10_delete_exact :
  forall (cl : bool) (evs : list event) (k : kind) (ns name : string),
    let r := {| rk := k; rns := ns; rname := name |} in
    let w := run_events cl evs world0 in
    let w' := del_step k ns name w in
    slashfree r ->
    lookup (path_of r) (dir_of (is_stream r) (dk w')) = None /\
    (forall st f, (st, f) <> (is_stream r, path_of r) -> lookup f (dir_of st (dk w')) = lookup f (dir_of st (dk w))).
Proof. exact delete_exact. Qed.
Print Assumptions C10_delete_exact.

(* FULL STATEMENT (false, see C10_restart_refuted): the same after a restart inserted at every point
   with arbitrary cluster changes while the controller is down.
   PROVED PART: histories of operations AND restarts in which nothing that was being served has been
   deleted while the controller was down (restart_safe); creations and updates while down are arbitrary.
   Names DNS-legal; the only remaining naming hypothesis is about pairs of Ingress resources (F08). *)
Theorem C10_restart_partial :
  forall (cl : bool) (evs : list event),
    (forall r, In r (all_targets evs) -> legal r) ->
    ing_collision_free (all_targets evs) ->
    restart_safe evs [] ->
    disk_matches (dk (run_events cl evs world0)) (spec_events evs []).
Proof. exact C10_main. Qed.
Print Assumptions C10_restart_partial.

(* What "served after a restart" means in the statements above: a cluster holds at most one object
   per kind/namespace/name, and then exactly its objects are served, whatever was served before. *)
Theorem C10_restart_serves_cluster :
  forall (c : list addop) (s : served),
    NoDup (map rid_of c) ->
    (forall a, In a c -> aget (rid_of a) (spec_event (Restart c) s) = Some (info_of a)) /\
    (forall r, ~ In r (map rid_of c) -> aget r (spec_event (Restart c) s) = None).
Proof. exact spec_restart_is_cluster. Qed.
Print Assumptions C10_restart_serves_cluster.

(* REFUTED (F10): a resource deleted while the controller is down keeps its file after the restart. *)
Theorem C10_restart_refuted :
  exists evs f v,
    (forall q, In q (all_targets evs) -> legal q) /\ ing_collision_free (all_targets evs) /\
    forall cl, lookup f (confd (dk (run_events cl evs world0))) = Some v /\
               (forall r, aget r (spec_events evs []) = None) /\
               ~ disk_matches (dk (run_events cl evs world0)) (spec_events evs []).
Proof. exact restart_refuted. Qed.
Print Assumptions C10_restart_refuted.

(* ---------- the passthrough map ---------- *)

(* FULL STATEMENT, proved for the code with fixes/F33.diff (cl = true): after every history of
   operations and restarts (deletions while down included) tls-passthrough-hosts.conf lists exactly
   the served passthrough TransportServers. *)
Theorem C10_passthrough_map_exact :
  forall evs : list event,
    (forall r, In r (all_targets evs) -> slashfree r) ->
    hosts_distinct (spec_events evs []) ->
    hosts_exact (hosts (dk (run_events true evs world0))) (spec_events evs []).
Proof. exact passthrough_map_exact_fixed. Qed.
Print Assumptions C10_passthrough_map_exact.

(* PROVED PART for the current code (any cl): histories in which no update turns a served
   passthrough TransportServer into a non-passthrough one. *)
Theorem C10_passthrough_map_exact_partial :
  forall (cl : bool) (evs : list event),
    (forall r, In r (all_targets evs) -> slashfree r) ->
    no_downgrade cl evs [] ->
    hosts_distinct (spec_events evs []) ->
    hosts_exact (hosts (dk (run_events cl evs world0))) (spec_events evs []).
Proof. exact passthrough_map_exact. Qed.
Print Assumptions C10_passthrough_map_exact_partial.

(* REFUTED for the current code (F33). *)
Theorem C10_passthrough_stale_refuted :
  exists evs h so,
    (forall q, In q (all_targets evs) -> legal q) /\ hosts_distinct (spec_events evs []) /\
    lookup h (hosts (dk (run_events false evs world0))) = Some so /\
    (forall r i, aget r (spec_events evs []) = Some i -> s_pt i = None) /\
    ~ hosts_exact (hosts (dk (run_events false evs world0))) (spec_events evs []).
Proof. exact passthrough_stale_refuted. Qed.
Print Assumptions C10_passthrough_stale_refuted.

(* ---------- namespace life cycle (-watch-namespace-label) ---------- *)

(* FULL STATEMENT (false, see C10_unwatched_namespace_refuted): after the task of a namespace that lost its label
   nothing of that namespace stays configured.
   PROVED PART: when every configured object of the namespace is still in the informer store at that moment. *)
Theorem C10_unwatched_namespace_cleanup_partial :
  forall (ns : string) (st : nstate),
    mem_s ns (n_labelled st) = false -> mem_s ns (n_watched st) = true ->
    (forall c, In c (n_cfg st) -> o_ns c = ns -> existsb (is_obj (o_kind c) (o_ns c) (o_name c)) (n_store st) = true) ->
    (forall c, In c (n_cfg (nsync (TNs ns) st)) -> o_ns c <> ns) /\
    mem_s ns (n_watched (nsync (TNs ns) st)) = false.
Proof. exact ns_cleanup_complete_partial. Qed.
Print Assumptions C10_unwatched_namespace_cleanup_partial.

(* REFUTED (F96): an object deleted while the namespace task is still queued stays configured. *)
Theorem C10_unwatched_namespace_refuted :
  exists evs o,
    n_cfg (nrun evs (nstate0 ["apps"])) = [o] /\ n_store (nrun evs (nstate0 ["apps"])) = [] /\
    n_watched (nrun evs (nstate0 ["apps"])) = [] /\ In (NDel (o_kind o) (o_ns o) (o_name o)) evs.
Proof. exact ns_delete_behind_refuted. Qed.
Print Assumptions C10_unwatched_namespace_refuted.

(* ---------- the file operations of the manager ---------- *)

(* After ANY history of writes and deletes through the manager (in particular add -> delete -> re-add of
   identical bytes, and change -> change back), a write leaves exactly the written bytes at the path of
   its family, a delete leaves nothing there, and no other path changes. *)
Theorem C10_manager_write_delete_exact :
  forall (ops : list mop) (o : mop),
    let m := mrun ops [] in
    let m' := mstep o m in
    match o with
    | MWrite f n c => lookup (mpath f n) m' = Some c
    | MDel f n => lookup (mpath f n) m' = None
    end /\
    forall p, p <> match o with MWrite f n _ => mpath f n | MDel f n => mpath f n end -> lookup p m' = lookup p m.
Proof. exact manager_write_delete_exact. Qed.
Print Assumptions C10_manager_write_delete_exact.

(* ---------- the decidable check evaluated on the implementation's listings ---------- *)

Theorem C10_spec_ok_meaning :
  forall obs_confd obs_stream obs_hosts s,
    spec_ok obs_confd obs_stream obs_hosts s = true ->
    (NoDup (map fst (expected_http s)) /\ NoDup (map fst obs_confd) /\ forall p, In p (expected_http s) <-> In p obs_confd) /\
    (NoDup (map fst (expected_stream s)) /\ NoDup (map fst obs_stream) /\ forall p, In p (expected_stream s) <-> In p obs_stream) /\
    (NoDup (map fst (expected_hosts s)) /\ NoDup (map fst obs_hosts) /\ forall p, In p (expected_hosts s) <-> In p obs_hosts).
Proof. exact spec_ok_meaning. Qed.
Print Assumptions C10_spec_ok_meaning.

(* ---------- non-vacuity: a concrete history meets every hypothesis ---------- *)

Open Scope Z_scope.

Definition ex_evs : list event :=
  [Op (Add (AddIng "a-b" "c" 1)); Op (Add (AddVS "a" "b-c" 2));
   Op (Add (AddTS "a" "b.c" 3 true "pt.example.com")); Op (Del KVS "a" "b-c");
   Restart [AddIng "a-b" "c" 1; AddTS "a" "b.c" 4 true "pt.example.com"; AddVS "x" "y" 5];
   Op (UpdateVSs [AddVS "a" "b-c" 6] [("x", "y")]); Op (Del KIng "a-b" "c")].

Example C10_ex_legal : forall r, In r (all_targets ex_evs) -> legal r.
Proof. apply legalb_ok. vm_compute. reflexivity. Qed.

Example C10_ex_collision_free : ing_collision_free (all_targets ex_evs).
Proof. apply ing_collision_freeb_ok. vm_compute. reflexivity. Qed.

Example C10_ex_restart_safe : restart_safe ex_evs [].
Proof.
  cbn [restart_safe ex_evs]. repeat split; try exact I.
  apply dom_in_check. vm_compute. reflexivity.
Qed.

Example C10_ex_disk :
  let w := run_events false ex_evs world0 in
  confd (dk w) = [("vs_a_b-c.conf", 6)] /\ streamd (dk w) = [("ts_a_b.c.conf", 4)] /\
  hosts (dk w) = [("pt.example.com", "unix:/var/lib/nginx/passthrough-a_b.c.sock")].
Proof. vm_compute. repeat split; reflexivity. Qed.

Example C10_ex_instance : disk_matches (dk (run_events false ex_evs world0)) (spec_events ex_evs []).
Proof. exact (C10_restart_partial false ex_evs C10_ex_legal C10_ex_collision_free C10_ex_restart_safe). Qed.

Example C10_ex_hosts_distinct : hosts_distinct (spec_events ex_evs []).
Proof. apply hosts_distinctb_ok. vm_compute. reflexivity. Qed.

Example C10_ex_no_downgrade : no_downgrade false ex_evs [].
Proof. cbn. repeat split; try exact I; try (left; discriminate); right; try exact I; left; reflexivity. Qed.
