(* C05 truth proof, part 10: host-side problems: who they are about, and "problem => not applied" *)
From Coq Require Import List ZArith String Ascii Bool Lia.
From NIC Require Import Base.SMap Arb.Types Arb.Model Arb.Spec Arb.WinsProofs Arb.InvProofs Arb.OwnerProofs
     Arb.ListenerProofs Arb.ClassProofs Arb.ChangeProofs Arb.ReportProofs Arb.ComposeProofs Arb.Cases Arb.ShadowProofs Arb.ShadowAttrs.
From NIC Require Import Arb.Truth01 Arb.Truth02 Arb.Truth03 Arb.Truth04 Arb.Truth05 Arb.Truth06 Arb.Truth07 Arb.Truth08 Arb.Truth09.
Import ListNotations.
Open Scope string_scope.
Open Scope Z_scope.

Ltac clash H := exfalso; unfold rkey, vsr_pkey, ing_rkey, vs_rkey, ts_rkey in H; cbn in H; congruence.

(* the object a problem is about *)
Inductive who (o : objs) (k u : string) : Prop :=
| who_ing k0 i : In (k0, i) (o_ings o) -> k = ing_rkey i -> u = m_uid (i_meta i) -> who o k u
| who_vs k0 v : In (k0, v) (o_vss o) -> k = vs_rkey v -> u = m_uid (v_meta v) -> who o k u
| who_vsr k0 r : In (k0, r) (o_vsrs o) -> k = vsr_pkey r -> u = m_uid (r_meta r) -> who o k u
| who_ts k0 t : In (k0, t) (o_tss o) -> k = ts_rkey t -> u = m_uid (t_meta t) -> who o k u.

Section Static.
  Variables (c : cfg) (o : objs).
  Hypothesis Hcm : cert_manager c = false.
  Hypothesis Hok : objs_ok o.
  Hypothesis Hr : roles_ok o.
  Hypothesis Hwf : objs_wf c o.
  Let B := build c (o_ings o) (o_vss o) (o_vsrs o) (o_tss o) (o_gc o).
  Let H := hosts_of_objs c o.

  Lemma hprob_cases k p : lookup k (hprobs_of_objs c o) = Some p ->
    In (k, p) (problems_no_host H (b_res B)) \/ In (k, p) (problems_orphan_minions H (o_ings o)) \/ In (k, p) (problems_vsrs H (o_vsrs o)).
  Proof.
    unfold hprobs_of_objs. intros L. apply of_list_lookup_in in L. apply in_app_or in L. destruct L as [L|L]; [auto|].
    apply in_app_or in L. destruct L; auto.
  Qed.

  Lemma hprob_present k p :
    In (k, p) (problems_no_host H (b_res B)) \/ In (k, p) (problems_orphan_minions H (o_ings o)) \/ In (k, p) (problems_vsrs H (o_vsrs o)) ->
    lookup k (hprobs_of_objs c o) <> None.
  Proof.
    intros Hin. unfold hprobs_of_objs. apply of_list_in_some. rewrite !map_app, !in_app_iff.
    destruct Hin as [Hin|[Hin|Hin]]; [left|right; left|right; right]; apply in_map_iff; exists (k, p); auto.
  Qed.

  (* the resource of a key that is in b_res *)
  Lemma res_kind k r : lookup k (b_res B) = Some r ->
    match r with
    | RIng ic => exists k0, In (k0, ic_ing ic) (o_ings o) /\ is_minion (ic_ing ic) = false /\ k = ing_rkey (ic_ing ic)
    | RVS vc => exists k0, In (k0, vc_vs vc) (o_vss o) /\ k = vs_rkey (vc_vs vc)
    | RTS tc => exists k0, In (k0, tc_ts tc) (o_tss o) /\ is_passthrough (tc_ts tc) = true /\ k = ts_rkey (tc_ts tc)
    end.
  Proof.
    intros L. pose proof (b_res_key _ _ _ _ _ _ _ _ L) as Hk.
    assert (Hin : In k (keys (b_res B))) by (apply in_keys_lookup; congruence).
    apply (res_key_in c o Hcm) in Hin. destruct Hok as (W1 & W2 & W3 & W4 & K1 & K2 & K3 & K4).
    pose proof (b_res_shape c _ _ (o_vsrs o) _ (o_gc o) _ _ L) as Hs.
    destruct r as [ic|vc|tc].
    - destruct Hs as [(k1 & Hst) _]. exists k1. split; [exact Hst|]. split; [|rewrite <- Hk; reflexivity].
      destruct Hin as [(k0 & i & Hi & Hm & E)|[(k0 & v & Hv & E)|(_ & k0 & t & Ht & Hp & E)]]; rewrite <- Hk in E; try (clash E).
      assert (i = ic_ing ic).
      { apply (same_stored (fun i => mkey (i_meta i)) (o_ings o) k0 k1 _ _ W1 K1 Hi Hst).
        unfold ing_rkey, rkey in E. cbn [kind_prefix res_meta] in E. apply append_inj_l in E. congruence. }
      subst i. exact Hm.
    - destruct Hs as (k1 & Hst). exists k1. split; [exact Hst|rewrite <- Hk; reflexivity].
    - destruct Hs as (k1 & Hst). exists k1. split; [exact Hst|]. split; [|rewrite <- Hk; reflexivity].
      destruct Hin as [(k0 & i & Hi & Hm & E)|[(k0 & v & Hv & E)|(_ & k0 & t & Ht & Hp & E)]]; rewrite <- Hk in E; try (clash E).
      assert (t = tc_ts tc).
      { apply (same_stored (fun t => mkey (t_meta t)) (o_tss o) k0 k1 _ _ W4 K4 Ht Hst).
        unfold ts_rkey, rkey in E. cbn [kind_prefix res_meta] in E. apply append_inj_l in E. congruence. }
      subst t. exact Hp.
  Qed.

  (* a VirtualServer or TransportServer resource sits under its own host *)
  Lemma vs_place h vc : lookup h H = Some (RVS vc) -> h = v_host (vc_vs vc).
  Proof.
    intros Hh. pose proof (b_hosts_res _ _ _ _ _ _ _ _ Hh) as Hres. destruct (res_kind _ _ Hres) as (k1 & Hst & _).
    destruct (b_hosts_holder _ _ _ _ _ _ _ _ Hh) as (mm & Hcl & _).
    destruct (claim_of_vs _ _ _ _ _ _ _ Hcl (vc_vs vc) eq_refl) as (k2 & v2 & Hin2 & Hk2 & Hh2).
    destruct Hok as (W1 & W2 & W3 & W4 & K1 & K2 & K3 & K4).
    assert (v2 = vc_vs vc).
    { apply (same_stored (fun v => mkey (v_meta v)) (o_vss o) k2 k1 _ _ W2 K2 Hin2 Hst).
      unfold vs_rkey, rkey in Hk2. cbn [kind_prefix res_meta] in Hk2. apply append_inj_l in Hk2. exact Hk2. }
    subst v2. exact Hh2.
  Qed.

  Lemma ts_place h tc : lookup h H = Some (RTS tc) -> h = t_host (tc_ts tc).
  Proof.
    intros Hh. pose proof (b_hosts_res _ _ _ _ _ _ _ _ Hh) as Hres. destruct (res_kind _ _ Hres) as (k1 & Hst & _).
    destruct (b_hosts_holder _ _ _ _ _ _ _ _ Hh) as (mm & Hcl & _).
    destruct (claim_of_ts _ _ _ _ _ _ _ Hcl (tc_ts tc) eq_refl) as (k2 & t2 & Hin2 & Hk2 & Hh2).
    destruct Hok as (W1 & W2 & W3 & W4 & K1 & K2 & K3 & K4).
    assert (t2 = tc_ts tc).
    { apply (same_stored (fun t => mkey (t_meta t)) (o_tss o) k2 k1 _ _ W4 K4 Hin2 Hst).
      unfold ts_rkey, rkey in Hk2. cbn [kind_prefix res_meta] in Hk2. apply append_inj_l in Hk2. exact Hk2. }
    subst t2. exact Hh2.
  Qed.

  Lemma holder_key_of h r : lookup h H = Some r -> holder_key H h = rkey r.
  Proof. intros E. unfold holder_key. rewrite E. reflexivity. Qed.

  (* ---- who ---- *)
  Lemma hprob_who k p : lookup k (hprobs_of_objs c o) = Some p -> p_obj p = k /\ p_is_error p = false /\ who o k (p_uid p).
  Proof.
    intros L. pose proof (hprobs_keyed c o k p (lookup_In _ _ _ L)) as Hobj. split; [exact Hobj|].
    destruct (hprob_cases k p L) as [Hin|[Hin|Hin]].
    - unfold problems_no_host in Hin. apply in_filter_map in Hin. destruct Hin as ([k0 r] & Hres & Hf). cbn [fst snd] in Hf.
      apply In_lookup in Hres; [|apply wf_b_res]. pose proof (res_kind _ _ Hres) as Hk.
      destruct r as [ic|vc|tc]; match type of Hf with (if ?b then _ else _) = _ => destruct b end; inversion Hf; subst; cbn [p_is_error p_uid res_meta];
        (split; [reflexivity|]).
      + destruct Hk as (k1 & Hst & _ & E). eapply who_ing; eauto.
      + destruct Hk as (k1 & Hst & E). eapply who_vs; eauto.
      + destruct Hk as (k1 & Hst & _ & E). eapply who_ts; eauto.
    - unfold problems_orphan_minions in Hin. apply in_filter_map in Hin. destruct Hin as ([k0 i] & Hi & Hf). cbn [snd] in Hf.
      destruct (is_minion i); [|discriminate].
      match type of Hf with (if ?b then _ else _) = _ => destruct b end; inversion Hf; subst; cbn [p_is_error p_uid]. split; [reflexivity|].
      eapply who_ing; eauto.
    - unfold problems_vsrs in Hin. apply in_filter_map in Hin. destruct Hin as ([k0 r] & Hrr & Hf). cbn [snd] in Hf.
      assert (G : p_is_error p = false /\ k = vsr_pkey r /\ p_uid p = m_uid (r_meta r)).
      { destruct (lookup (r_host r) H) as [[ic|vc|tc]|]; try (inversion Hf; subst; cbn; auto).
        match type of Hf with (if ?b then _ else _) = _ => destruct b end; inversion Hf; subst; cbn; auto. }
      destruct G as (G1 & G2 & G3). split; [exact G1|]. eapply who_vsr; eauto.
  Qed.
End Static.
