//go:build verif

// Resource family of the C14 harness: ONE resource with SEVERAL backends -- an Ingress with a
// default backend and paths on two hosts, a master/minion pair, a VirtualServer with
// VirtualServerRoutes in its own and in another namespace (same-named Services in both
// namespaces, different pods), a TransportServer -- in which any subset of the Services is
// missing / without ready endpoints / ExternalName, in any order.  The extended resource is
// built by the REAL createIngressEx / createVirtualServerEx / createTransportServerEx, written
// by the REAL Configurator (production templates), then the cluster changes and the REAL
// UpdateEndpoints / UpdateEndpointsMergeableIngress / UpdateEndpointsForVirtualServers /
// UpdateEndpointsForTransportServers run.  Observables per backend: its Endpoints entry, the
// `server` lines of ITS upstream block in the file, and the servers pushed for ITS upstream
// through UpdateServersInPlus / UpdateStreamServersInPlus (NGINX Plus).
package main

import (
	"fmt"
	"sort"

	"github.com/nginx/kubernetes-ingress/internal/configs"
	"github.com/nginx/kubernetes-ingress/internal/k8s"
	"github.com/nginx/kubernetes-ingress/internal/verifh/vh"
	conf_v1 "github.com/nginx/kubernetes-ingress/pkg/apis/configuration/v1"
	networking "k8s.io/api/networking/v1"
	meta_v1 "k8s.io/apimachinery/pkg/apis/meta/v1"
)

const NS2 = "team-b"

type ResItem struct {
	Ns    string  `json:"ns"`    // namespace of the owner (= where the Service is looked up)
	Owner string  `json:"owner"` // ing: default | path ; vs: vs | vsr:<ns>/<name> ; ts: ts
	Host  string  `json:"host,omitempty"`
	B     Backend `json:"b"`
}

type ResSpec struct {
	Kind  string    `json:"kind"` // ing | ming | vs | ts
	Items []ResItem `json:"items"`
}

type ItemObs struct {
	Entry     []string `json:"entry"`
	HasEntry  bool     `json:"has_entry"`
	ExtSvc    bool     `json:"ext_svc"`
	Servers   []string `json:"servers"`
	Upstream  bool     `json:"upstream"`
	Pushed    []string `json:"pushed"`
	WasPushed bool     `json:"was_pushed"`
}

type ResObs struct {
	Items []ItemObs `json:"items"`
	Panic string    `json:"panic,omitempty"`
	Error string    `json:"error,omitempty"`
}

type built struct {
	keys   []string // Endpoints key per item
	ups    []string // upstream name per item
	extKey []string // ExternalNameSvcs key per item
	entry  func(i int) ([]string, bool, bool)
	apply  func(cnf *configs.Configurator, update bool) error
}

func load(c *Case, svcs []Svc, slices []Slice) *k8s.VerifC14 {
	v := k8s.NewVerifC14(c.Plus)
	for _, s := range svcs {
		if err := v.AddService(mkService(s)); err != nil {
			panic(err)
		}
	}
	for _, s := range slices {
		if err := v.AddSlice(mkSlice(s)); err != nil {
			panic(err)
		}
	}
	for _, p := range c.Pods {
		if err := v.AddPod(mkPod(p)); err != nil {
			panic(err)
		}
	}
	return v
}

func ingBackend(b Backend) networking.IngressBackend {
	return networking.IngressBackend{Service: &networking.IngressServiceBackend{
		Name: b.Svc, Port: networking.ServiceBackendPort{Name: b.PortName, Number: int32(b.PortNum)}}}
}

// build creates the resource of the case over the cluster loaded in v and its extended resource.
func build(v *k8s.VerifC14, c *Case) built {
	r := c.Res
	n := len(r.Items)
	out := built{keys: make([]string, n), ups: make([]string, n), extKey: make([]string, n)}
	switch r.Kind {
	case "ing", "ming":
		class := "nginx"
		mk := func(name string) *networking.Ingress {
			ing := &networking.Ingress{ObjectMeta: meta_v1.ObjectMeta{Namespace: NS, Name: name, Annotations: map[string]string{}},
				Spec: networking.IngressSpec{IngressClassName: &class}}
			if len(r.Items) > 0 && r.Items[0].B.ClusterIP {
				ing.Annotations["nginx.org/use-cluster-ip"] = "true"
			}
			return ing
		}
		ing := mk("ing")
		pt := networking.PathTypePrefix
		rules := map[string]*networking.IngressRule{}
		var hosts []string
		for i, it := range r.Items {
			backend := ingBackend(it.B)
			out.keys[i] = it.B.Svc + configs.GetBackendPortAsString(backend.Service.Port)
			out.extKey[i] = it.B.Svc
			if it.Owner == "default" {
				ing.Spec.DefaultBackend = &backend
				out.ups[i] = configs.VerifC14IngressUpstreamName(ing, "", &backend)
				continue
			}
			rule, ok := rules[it.Host]
			if !ok {
				rule = &networking.IngressRule{Host: it.Host, IngressRuleValue: networking.IngressRuleValue{HTTP: &networking.HTTPIngressRuleValue{}}}
				rules[it.Host] = rule
				hosts = append(hosts, it.Host)
			}
			rule.HTTP.Paths = append(rule.HTTP.Paths, networking.HTTPIngressPath{Path: fmt.Sprintf("/p%d", i), PathType: &pt, Backend: backend})
			out.ups[i] = configs.VerifC14IngressUpstreamName(ing, it.Host, &backend)
		}
		if len(hosts) == 0 {
			hosts = []string{"a.example.com"}
			rules["a.example.com"] = &networking.IngressRule{Host: "a.example.com"}
		}
		valid := map[string]bool{}
		for _, h := range hosts {
			ing.Spec.Rules = append(ing.Spec.Rules, *rules[h])
			valid[h] = true
		}
		if r.Kind == "ing" {
			ex := v.CreateIngressEx(ing, valid)
			out.entry = func(i int) ([]string, bool, bool) {
				e, ok := ex.Endpoints[out.keys[i]]
				return e, ok, ex.ExternalNameSvcs[out.extKey[i]]
			}
			out.apply = func(cnf *configs.Configurator, update bool) error {
				if update {
					return cnf.UpdateEndpoints([]*configs.IngressEx{ex})
				}
				_, err := cnf.AddOrUpdateIngress(ex)
				return err
			}
			return out
		}
		// master / minion: the minion carries the paths (one host)
		ing.Name = "minion"
		ing.Annotations["nginx.org/mergeable-ingress-type"] = "minion"
		ing.Spec.DefaultBackend = nil
		master := mk("master")
		master.Annotations["nginx.org/mergeable-ingress-type"] = "master"
		master.Spec.Rules = []networking.IngressRule{{Host: hosts[0]}}
		for i, it := range r.Items {
			backend := ingBackend(it.B)
			out.ups[i] = configs.VerifC14IngressUpstreamName(ing, it.Host, &backend)
		}
		mex := v.CreateIngressEx(master, valid)
		paths := map[string]bool{}
		for _, rule := range ing.Spec.Rules {
			if rule.HTTP != nil {
				for _, p := range rule.HTTP.Paths {
					paths[p.Path] = true
				}
			}
		}
		ex := v.CreateMinionIngressEx(ing, valid, paths)
		merge := &configs.MergeableIngresses{Master: mex, Minions: []*configs.IngressEx{ex}}
		out.entry = func(i int) ([]string, bool, bool) {
			e, ok := ex.Endpoints[out.keys[i]]
			return e, ok, ex.ExternalNameSvcs[out.extKey[i]]
		}
		out.apply = func(cnf *configs.Configurator, update bool) error {
			if update {
				return cnf.UpdateEndpointsMergeableIngress([]*configs.MergeableIngresses{merge})
			}
			_, err := cnf.AddOrUpdateMergeableIngress(merge)
			return err
		}
		return out
	case "vs":
		vs := &conf_v1.VirtualServer{ObjectMeta: meta_v1.ObjectMeta{Namespace: NS, Name: "vs"}, Spec: conf_v1.VirtualServerSpec{Host: "h.example.com"}}
		vsrs := map[string]*conf_v1.VirtualServerRoute{}
		var order []string
		for i, it := range r.Items {
			u := conf_v1.Upstream{Name: fmt.Sprintf("u%d", i), Service: it.B.Svc, Port: uint16(it.B.PortNum), UseClusterIP: it.B.ClusterIP,
				Subselector: labelsOf(it.B.Subsel)}
			out.keys[i] = configs.GenerateEndpointsKey(it.Ns, it.B.Svc, labelsOf(it.B.Subsel), uint16(it.B.PortNum))
			out.extKey[i] = configs.GenerateExternalNameSvcKey(it.Ns, it.B.Svc)
			if it.Owner == "vs" {
				vs.Spec.Upstreams = append(vs.Spec.Upstreams, u)
				vs.Spec.Routes = append(vs.Spec.Routes, conf_v1.Route{Path: fmt.Sprintf("/u%d", i), Action: &conf_v1.Action{Pass: u.Name}})
				continue
			}
			vsr, ok := vsrs[it.Owner]
			if !ok {
				name := fmt.Sprintf("r%d", len(order))
				vsr = &conf_v1.VirtualServerRoute{ObjectMeta: meta_v1.ObjectMeta{Namespace: it.Ns, Name: name},
					Spec: conf_v1.VirtualServerRouteSpec{Host: "h.example.com"}}
				vsrs[it.Owner] = vsr
				order = append(order, it.Owner)
				vs.Spec.Routes = append(vs.Spec.Routes, conf_v1.Route{Path: "/" + name, Route: it.Ns + "/" + name})
			}
			vsr.Spec.Upstreams = append(vsr.Spec.Upstreams, u)
			vsr.Spec.Subroutes = append(vsr.Spec.Subroutes, conf_v1.Route{Path: fmt.Sprintf("/%s/u%d", vsr.Name, i), Action: &conf_v1.Action{Pass: u.Name}})
		}
		var list []*conf_v1.VirtualServerRoute
		for _, o := range order {
			list = append(list, vsrs[o])
		}
		for i, it := range r.Items {
			if it.Owner == "vs" {
				out.ups[i] = configs.NewUpstreamNamerForVirtualServer(vs).GetNameForUpstream(fmt.Sprintf("u%d", i))
			} else {
				out.ups[i] = configs.NewUpstreamNamerForVirtualServerRoute(vs, vsrs[it.Owner]).GetNameForUpstream(fmt.Sprintf("u%d", i))
			}
		}
		ex := v.CreateVirtualServerEx(vs, list)
		out.entry = func(i int) ([]string, bool, bool) {
			e, ok := ex.Endpoints[out.keys[i]]
			return e, ok, ex.ExternalNameSvcs[out.extKey[i]]
		}
		out.apply = func(cnf *configs.Configurator, update bool) error {
			if update {
				return cnf.UpdateEndpointsForVirtualServers([]*configs.VirtualServerEx{ex})
			}
			_, err := cnf.AddOrUpdateVirtualServer(ex)
			return err
		}
		return out
	case "ts":
		ts := &conf_v1.TransportServer{ObjectMeta: meta_v1.ObjectMeta{Namespace: NS, Name: "ts"}, Spec: conf_v1.TransportServerSpec{
			Listener: conf_v1.TransportServerListener{Name: "tcp-5353", Protocol: "TCP"}, Action: &conf_v1.TransportServerAction{Pass: "u0"}}}
		for i, it := range r.Items {
			name := fmt.Sprintf("u%d", i)
			ts.Spec.Upstreams = append(ts.Spec.Upstreams, conf_v1.TransportServerUpstream{Name: name, Service: it.B.Svc, Port: it.B.PortNum})
			out.keys[i] = configs.GenerateEndpointsKey(NS, it.B.Svc, nil, uint16(it.B.PortNum))
			out.extKey[i] = configs.GenerateExternalNameSvcKey(NS, it.B.Svc)
			out.ups[i] = configs.VerifC14TransportServerUpstreamName(ts, name)
		}
		ex := v.CreateTransportServerEx(ts, 5353)
		out.entry = func(i int) ([]string, bool, bool) {
			e, ok := ex.Endpoints[out.keys[i]]
			return e, ok, ex.ExternalNameSvcs[out.extKey[i]]
		}
		out.apply = func(cnf *configs.Configurator, update bool) error {
			if update {
				return cnf.UpdateEndpointsForTransportServers([]*configs.TransportServerEx{ex})
			}
			_, err := cnf.AddOrUpdateTransportServer(ex)
			return err
		}
		return out
	}
	panic("unknown resource kind " + r.Kind)
}

func runRes(c *Case) {
	o := ResObs{Items: []ItemObs{}}
	defer func() {
		if r := recover(); r != nil {
			o.Panic = fmt.Sprint(r)
		}
		c.Obs = o
	}()
	if c.Res == nil || len(c.Res.Items) == 0 {
		o.Error = "a res case needs a resource with backends"
		return
	}
	m := newRecMgr()
	cnf, err := configs.VerifC14NewConfigurator(repoDir(), m, c.Plus)
	if err != nil {
		o.Error = err.Error()
		return
	}
	cnf.EnableReloads()
	// 1. the resource is configured on the first cluster
	b1 := build(load(c, c.Svcs, c.Slices), c)
	if err := b1.apply(cnf, false); err != nil {
		o.Error = "add: " + err.Error()
		return
	}
	// 2. the cluster changes (or not); endpoints-only update
	svcs2, slices2 := c.Svcs, c.Slices
	if c.Dyn != nil {
		svcs2, slices2 = c.Dyn.Svcs2, c.Dyn.Slices2
	}
	m.pushed = map[string][]string{}
	b2 := build(load(c, svcs2, slices2), c)
	if err := b2.apply(cnf, true); err != nil {
		o.Error = "update: " + err.Error()
		return
	}
	files := m.upstreamServers()
	for i := range c.Res.Items {
		var it ItemObs
		e, has, ext := b2.entry(i)
		it.Entry, it.HasEntry, it.ExtSvc = sorted(e), has, ext
		s, ok := files[b2.ups[i]]
		it.Servers, it.Upstream = sorted(s), ok
		p, ok := m.pushed[b2.ups[i]]
		it.Pushed, it.WasPushed = sorted(p), ok
		o.Items = append(o.Items, it)
	}
}

// ---------- generator ----------

// cloneInto makes a same-named Service with OTHER pods in the second namespace.
func cloneInto(r *vh.Rng, c *Case, s Svc, idx int) {
	t := deepCopy(s)
	t.Ns = NS2
	if t.Type != "ExternalName" {
		t.ClusterIP = fmt.Sprintf("10.97.0.%d", 1+idx)
	}
	for k := range t.Ports {
		if t.Ports[k].TKind == 2 {
			t.Ports[k].TKind, t.Ports[k].TNum, t.Ports[k].TName = 1, 7000+k, ""
		}
	}
	c.Svcs = append(c.Svcs, t)
	if t.Type == "ExternalName" {
		return
	}
	sl := Slice{Ns: NS2, Name: t.Name + "-b0", Svc: t.Name}
	for _, sp := range t.Ports {
		n := sp.Port
		if sp.TKind == 1 {
			n = sp.TNum
		}
		sl.Ports = append(sl.Ports, SlicePort{Name: sp.Name, HasNum: true, Num: n, Proto: sp.Proto})
	}
	for j := 0; j < 1+r.Intn(2); j++ {
		p := Pod{Ns: NS2, Name: fmt.Sprintf("%s-b%d", t.Name, j), IP: fmt.Sprintf("10.1.%d.%d", idx, 1+j),
			Labels: [][2]string{{"app", t.Name}, {"version", vh.Pick(r, []string{"v1", "v2"})}}}
		c.Pods = append(c.Pods, p)
		sl.Eps = append(sl.Eps, Endp{Addrs: []string{p.IP}, Ready: genReady(r), Ref: p.Name})
	}
	c.Slices = append(c.Slices, sl)
}

func genRes(r *vh.Rng, id int) Case {
	c := Case{ID: id, Fam: "res", Class: "res", Plus: r.Chance(1, 2)}
	genCluster(r, &c)
	base := len(c.Svcs)
	for i := 0; i < base; i++ {
		if r.Chance(2, 3) {
			cloneInto(r, &c, c.Svcs[i], i)
		}
	}
	kind := vh.Pick(r, []string{"ing", "ing", "ing", "ming", "vs", "vs", "vs", "vs", "ts"})
	res := &ResSpec{Kind: kind}
	n := 2 + r.Intn(3)
	useIP := kind != "ts" && r.Chance(1, 10)
	seen := map[string]bool{}
	vsrNs := []string{NS2, NS2, NS}
	for i := 0; i < n; i++ {
		s := c.Svcs[r.Intn(base)]
		it := ResItem{Ns: NS, Owner: "path", Host: vh.Pick(r, []string{"a.example.com", "b.example.com"})}
		b := Backend{Kind: "ing", Svc: s.Name, PortNum: s.Ports[r.Intn(len(s.Ports))].Port, ClusterIP: useIP}
		switch x := r.Intn(10); {
		case x < 3:
			b.Svc = vh.Pick(r, []string{"missing", "gone"}) // the Service does not exist
		case x < 4:
			b.PortNum = 81 // a port the Service does not have
		}
		switch kind {
		case "ing":
			if i == 0 && r.Chance(1, 2) {
				it.Owner, it.Host = "default", ""
			}
			if sp := s.Ports[0]; b.Svc == s.Name && sp.Name != "" && r.Chance(1, 4) {
				b.PortName, b.PortNum = sp.Name, 0
			}
		case "ming":
			it.Host = "a.example.com"
		case "vs":
			b.Kind, it.Owner, it.Host = "vs", "vs", ""
			if i > 0 && r.Chance(2, 3) {
				ns := vh.Pick(r, vsrNs)
				it.Ns, it.Owner = ns, fmt.Sprintf("vsr:%s/%d", ns, r.Intn(2))
				b.Kind = "vsr"
			}
			if r.Chance(1, 8) {
				b.Subsel = [][2]string{{"version", vh.Pick(r, []string{"v1", "v2"})}}
			}
		case "ts":
			b.Kind, it.Owner, it.Host = "ts", "ts", ""
		}
		key := fmt.Sprintf("%s|%s|%s|%d|%v", it.Ns, b.Svc, b.PortName, b.PortNum, b.Subsel)
		if kind == "ing" || kind == "ming" {
			key = fmt.Sprintf("%s|%s|%d", b.Svc, b.PortName, b.PortNum)
		}
		if seen[key] {
			continue
		}
		seen[key] = true
		it.B = b
		res.Items = append(res.Items, it)
	}
	// a vsr may not be empty-named twice in different namespaces: owners are ns-qualified already
	c.Res = res
	// the change before the endpoints-only update
	if r.Chance(2, 3) && len(c.Slices) > 0 {
		d := &DynSpec{Op: "ready", Svcs2: deepCopy(c.Svcs), Slices2: deepCopy(c.Slices)}
		for k := 1 + r.Intn(2); k > 0; k-- {
			i := r.Intn(len(d.Slices2))
			if len(d.Slices2[i].Eps) == 0 || r.Chance(1, 3) {
				d.Slices2[i].Eps = append(d.Slices2[i].Eps, Endp{Addrs: []string{fmt.Sprintf("10.2.0.%d", 1+r.Intn(9))}, Ready: 1, Ref: "new-0"})
			} else {
				j := r.Intn(len(d.Slices2[i].Eps))
				if d.Slices2[i].Eps[j].Ready == 1 {
					d.Slices2[i].Eps[j].Ready = 0
				} else {
					d.Slices2[i].Eps[j].Ready = 1
				}
			}
		}
		c.Dyn = d
	}
	sort.SliceStable(res.Items, func(i, j int) bool { return res.Items[i].Owner == "default" && res.Items[j].Owner != "default" })
	return c
}

// resCorpus: the shapes of the two seeded changes.
func resCorpus() []Case {
	tcp := "TCP"
	svc := func(ns, name, ip string) Svc {
		return Svc{Ns: ns, Name: name, Type: "ClusterIP", ClusterIP: ip, Selector: [][2]string{{"app", name}},
			Ports: []SvcPort{{Name: "http", Port: 80, Proto: tcp, TKind: 1, TNum: 8080}}}
	}
	sl := func(ns, name, svcName string, ready int, addrs ...string) Slice {
		s := Slice{Ns: ns, Name: name, Svc: svcName, Ports: []SlicePort{{Name: "http", HasNum: true, Num: 8080, Proto: tcp}}}
		for i, a := range addrs {
			s.Eps = append(s.Eps, Endp{Addrs: []string{a}, Ready: ready, Ref: fmt.Sprintf("%s-%d", svcName, i)})
		}
		return s
	}
	ing := func(svcName string) Backend { return Backend{Kind: "ing", Svc: svcName, PortNum: 80} }
	var cs []Case
	for _, plus := range []bool{false, true} {
		// Ingress: a backend with endpoints, then a missing Service, then a Service without ready endpoints, then one more
		cs = append(cs, Case{Fam: "res", Class: "res-corpus-ingress-missing-service", Plus: plus,
			Svcs:   []Svc{svc(NS, "coffee", "10.96.0.1"), svc(NS, "water", "10.96.0.2"), svc(NS, "idle", "10.96.0.3")},
			Slices: []Slice{sl(NS, "coffee-s0", "coffee", 1, "10.0.0.1", "10.0.0.2"), sl(NS, "water-s0", "water", 1, "10.0.0.9"), sl(NS, "idle-s0", "idle", 0, "10.0.0.7")},
			Res: &ResSpec{Kind: "ing", Items: []ResItem{
				{Ns: NS, Owner: "default", B: ing("coffee")},
				{Ns: NS, Owner: "path", Host: "a.example.com", B: ing("tea")},
				{Ns: NS, Owner: "path", Host: "a.example.com", B: ing("idle")},
				{Ns: NS, Owner: "path", Host: "b.example.com", B: ing("water")},
				{Ns: NS, Owner: "path", Host: "b.example.com", B: ing("gone")}}}})
	}
	// VirtualServer in ns, VirtualServerRoute in team-b, same-named Service in both namespaces, other pods
	vsb := func(kind string) Backend { return Backend{Kind: kind, Svc: "app", PortNum: 80} }
	for _, plus := range []bool{false, true} {
		cs = append(cs, Case{Fam: "res", Class: "res-corpus-vsr-other-namespace", Plus: plus,
			Svcs:   []Svc{svc(NS, "app", "10.96.0.1"), svc(NS2, "app", "10.97.0.1"), svc(NS2, "only-b", "10.97.0.2")},
			Slices: []Slice{sl(NS, "app-s0", "app", 1, "10.0.0.1", "10.0.0.2"), sl(NS2, "app-b0", "app", 1, "10.1.0.1"), sl(NS2, "only-b0", "only-b", 1, "10.1.0.5")},
			Res: &ResSpec{Kind: "vs", Items: []ResItem{
				{Ns: NS, Owner: "vs", B: vsb("vs")},
				{Ns: NS2, Owner: "vsr:team-b/0", B: vsb("vsr")},
				{Ns: NS2, Owner: "vsr:team-b/0", B: Backend{Kind: "vsr", Svc: "only-b", PortNum: 80}}}},
			Dyn: &DynSpec{Op: "addr", Svcs2: []Svc{svc(NS, "app", "10.96.0.1"), svc(NS2, "app", "10.97.0.1"), svc(NS2, "only-b", "10.97.0.2")},
				Slices2: []Slice{sl(NS, "app-s0", "app", 1, "10.0.0.1"), sl(NS2, "app-b0", "app", 1, "10.1.0.7", "fd00::17"), sl(NS2, "only-b0", "only-b", 1, "10.1.0.5")}}})
	}
	return cs
}
