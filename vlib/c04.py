"""C04 -- master/minion and VirtualServer/Route composition is exactly as declared."""
import json
from . import common as C, arb

ID, MASK, FIRST, STEP, CODE, OI, NEV = range(7)
RELEVANT = 16


def has_composition(c):
    for st in c["histories"][0]["steps"]:
        for r in st["res"]:
            if r.get("minions") or r.get("vsrs"):
                return True
    return False


def judge(run, cases, rows):
    for c in cases:
        if c.get("error"):
            run.failing({"kind": "harness-case-error"}, [c], "harness could not run case %d: %s" % (c["id"], c["error"][:300]),
                        theorem="correspondence harness arb", found_input="panic" in c["error"])
            continue
        r = rows[c["id"]]
        run.count_case(arb.canon(c), has_composition(c))
        run.cov["traces_validated_against_impl"] += len(c["histories"])
        if r[STEP] != 0 and r[CODE] == 2:
            run.failing({"kind": "route-attached-twice"}, [c],
                        "C04/C07: after step %d of case %d one VirtualServerRoute is attached twice to the same VirtualServer (two routes reference it)" % (r[STEP], c["id"]),
                        theorem="Arb.Cases.vsrs_once")
        elif r[STEP] != 0:
            run.failing({"kind": "composition-not-as-declared"}, [c],
                        "C04: after step %d of case %d the minions / valid paths / routes attached in GetResources() differ from the declarative composition of the current object set, "
                        "or a resource that does not own its host composes" % (r[STEP], c["id"]), theorem="Arb.Cases.composition_ok")
        elif r[OI] == 0:
            run.failing({"kind": "order-dependent"}, [c], "C04: histories of case %d ending in the same object set end with different compositions" % c["id"],
                        theorem="Arb.Cases.obs_final_eqb")
        elif r[MASK] & RELEVANT:
            run.failing({"kind": "correspondence", "components": r[MASK] & RELEVANT}, [c],
                        "model and implementation disagree on resources (mask %d, first step %d, case %d) while the composition specification holds" % (r[MASK], r[FIRST], c["id"]),
                        theorem="correspondence Arb.Model ~ internal/k8s/configuration.go (GetResources)", found_input=False)


def render_term(c):
    """per step: for every active master, server name -> (path, minion) locations written by the real generator"""
    S = C.cq_str
    steps = []
    for st in c["ctl"]:
        ms = []
        for m in st.get("render") or []:
            for host, locs in sorted(m["locs"].items()):
                ms.append("(%s, %s)" % (S(host), C.cq_list(["(%s, %s)" % (S(l["path"]), S(l["minion"])) for l in locs])))
        steps.append(C.cq_list(ms))
    return C.cq_list(steps)


def judge_render(run, cases, rows):
    for c in cases:
        if c.get("error") or c["id"] not in rows:
            continue
        r = rows[c["id"]]
        run.cov["traces_validated_against_impl"] += 1
        run.cov["masters_rendered"] = run.cov.get("masters_rendered", 0) + r[2]
        if r[1] != 0:
            st = c["ctl"][r[1] - 1]
            run.failing({"kind": "rendered-locations-not-as-declared"}, [c],
                        "C04: after step %d of case %d the locations the real generateNginxCfgForMergeableIngresses writes for a master are not exactly the paths each minion is the "
                        "oldest claimant of (a path served by two minions, by the wrong one, or not at all): %s" % (r[1], c["id"], json.dumps(st.get("render"))[:600]),
                        theorem="Arb.Cases.render_ok")


def judge_applied(run, cases, rows3):
    """the composition that reaches NGINX: the change batches, applied in order, leave configured exactly the active
    masters with their attached minions and the active VirtualServers with their attached routes -- a master or
    VirtualServer that lost its host must be removed with everything attached to it (the C03 shadow, restricted to
    the composition: minions, routes, a composed resource missing or left behind)"""
    from . import c03
    for c in cases:
        if c.get("error") or c["id"] not in rows3:
            continue
        r = rows3[c["id"]]
        if r[c03.STEP] == 0:
            continue
        ev = c["histories"][0]["events"][r[c03.STEP] - 1]
        code = r[c03.CODE]
        if code in (14, 15) or (code in (30, 31) and ev["spec"]["kind"] in ("ing", "vs", "vsr")):
            run.failing({"kind": "applied-composition", "field": c03.FIELDS.get(code, str(code)), "event_kind": ev["spec"]["kind"]}, [c],
                        "C04: applying the change batches returned by the real Configuration in order, after step %d of case %d what is configured is not the "
                        "composition GetResources() declares (a parent that lost its host stays configured with its minions / routes, or a composition is stale): %s (%s)"
                        % (r[c03.STEP], c["id"], c03.FIELDS.get(code, code), json.dumps(c03.describe(c, r[c03.STEP]))[:500]),
                        theorem="Arb.Cases.shadow_run")


def check(run):
    n = 250 if run.tier == "quick" else 5000
    run.proof_obligations()
    cases = arb.generate(run, n, ctl=True)
    rows = arb.evaluate(run, cases, fn="c04_case")
    judge(run, cases, rows)
    judge_applied(run, cases, arb.evaluate(run, cases, fn="c03_case", tag="arb3"))
    part = [c for c in cases if not c.get("error") and any(st.get("render") for st in c["ctl"])][: (120 if run.tier == "quick" else 2500)]
    judge_render(run, part, arb.evaluate(run, part, fn="c04_render_case", extra=render_term, tag="arbrender"))
    run.cov["render_level_histories"] = len(part)
    dpart = [c for c in cases if not c.get("error")][: (100 if run.tier == "quick" else 2000)]
    arb.judge_delivery(run, dpart, arb.evaluate(run, dpart, fn="ctl_case", extra=arb.ctl_term, tag="arbctl"), "C04",
                       "the composition is then computed from an object set that is not the current one")
    for c in [x for x in cases if has_composition(x)][:2]:
        run.sample(arb.summarize_case(c))
    run.cov["rule"] = ("histories of the arb harness (see C01): masters and minions sharing paths, several namespaces, routes referenced by bare name and namespace/name, prefix / exact / "
                       "regex route paths, parent host loss, challenge Ingresses; after every event the composition in GetResources() is compared with the declarative composition of the "
                       "object set the history determines; non-trivial = some resource had minions or routes attached at some step; rendering projection: after every event every active master "
                       "is rendered through the real createMergeableIngresses + generateNginxCfgForMergeableIngresses and its locations (path, minion) are compared with the declarative ones")
    run.cov["trusted_base"] = arb.TRUSTED
    run.assumptions += ["the full VirtualServerRoute validator is an oracle; the per-reference part (host, subroute paths) is modelled"]


def replay(run, path):
    cases = arb.replay_cases(run, path, ctl=True)
    rr = arb.evaluate(run, cases, fn="c04_render_case", extra=render_term, tag="arbrender")
    for c in cases:
        if not c.get("error") and c["id"] in rr:
            print("replay case %d (rendering projection): first step where the rendered locations differ from the declared ones=%d" % (c["id"], rr[c["id"]][1]))
    judge_render(run, cases, rr)
    rows = arb.evaluate(run, cases, fn="c04_case")
    for c in cases:
        if not c.get("error"):
            r = rows[c["id"]]
            print("replay case %d: mask=%d first=%d; composition first failing step=%d code=%d; order-independent=%d" % (c["id"], r[MASK], r[FIRST], r[STEP], r[CODE], r[OI]))
    judge(run, cases, rows)
