//go:build verif

package k8s

// Add-only hook for the C07 harness: a LoadBalancerController assembled the way the unit tests
// assemble it (struct literal, cache.NewStore listers, real Configuration, real secret store, real
// Configurator over a harness-supplied nginx.Manager), and the dispatch part of processChanges
// without the status / event writes (which need an API server).

import (
	"context"
	"fmt"

	api_v1 "k8s.io/api/core/v1"
	discovery_v1 "k8s.io/api/discovery/v1"
	networking "k8s.io/api/networking/v1"
	"k8s.io/client-go/tools/cache"

	"github.com/nginx/kubernetes-ingress/internal/configs"
	"github.com/nginx/kubernetes-ingress/internal/k8s/appprotectdos"
	"github.com/nginx/kubernetes-ingress/internal/k8s/secrets"
	nl "github.com/nginx/kubernetes-ingress/internal/logger"
	"github.com/nginx/kubernetes-ingress/internal/metrics/collectors"
	conf_v1 "github.com/nginx/kubernetes-ingress/pkg/apis/configuration/v1"
	"github.com/nginx/kubernetes-ingress/pkg/apis/configuration/validation"
)

// VerifC07Opts are the feature switches of the controller that change what is accepted / rendered.
type VerifC07Opts struct {
	IsPlus          bool
	TLSPassthrough  bool
	SnippetsEnabled bool
	IPV6Disabled    bool
	InternalRoutes  bool
	Prometheus      bool
	Latency         bool
	EnableOIDC      bool
	IngressClass    string
	Configurator    *configs.Configurator
}

// VerifC07 wraps the controller.
type VerifC07 struct {
	lbc *LoadBalancerController
	nsi *namespacedInformer
}

// NewVerifC07 builds the controller.
func NewVerifC07(o VerifC07Opts) *VerifC07 {
	nsi := &namespacedInformer{
		svcLister:           cache.NewStore(keyFunc),
		endpointSliceLister: storeToEndpointSliceLister{cache.NewStore(keyFunc)},
		podLister:           indexerToPodLister{cache.NewIndexer(keyFunc, cache.Indexers{cache.NamespaceIndex: cache.MetaNamespaceIndexFunc})},
		policyLister:        cache.NewStore(keyFunc),
		ingressLister:       storeToIngressLister{cache.NewStore(keyFunc)},
		virtualServerLister: cache.NewStore(keyFunc),
		virtualServerRouteLister: cache.NewStore(keyFunc),
		transportServerLister:    cache.NewStore(keyFunc),
		secretLister:             cache.NewStore(keyFunc),
		areCustomResourcesEnabled: true,
		isSecretsEnabledNamespace: true,
	}
	lbc := &LoadBalancerController{
		ingressClass:              o.IngressClass,
		configurator:              o.Configurator,
		metricsCollector:          collectors.NewControllerFakeCollector(),
		Logger:                    nl.LoggerFromContext(context.Background()),
		namespacedInformers:       map[string]*namespacedInformer{"": nsi},
		isNginxPlus:               o.IsPlus,
		areCustomResourcesEnabled: true,
		enableOIDC:                o.EnableOIDC,
		internalRoutesEnabled:     o.InternalRoutes,
		isPrometheusEnabled:       o.Prometheus,
		isLatencyMetricsEnabled:   o.Latency,
		isIPV6Disabled:            o.IPV6Disabled,
		dosConfiguration:          appprotectdos.NewConfiguration(false),
	}
	lbc.configuration = NewConfiguration(
		lbc.HasCorrectIngressClass,
		o.IsPlus,
		false,
		false,
		o.InternalRoutes,
		validation.NewVirtualServerValidator(validation.IsPlus(o.IsPlus)),
		validation.NewGlobalConfigurationValidator(map[int]bool{80: true, 443: true}),
		validation.NewTransportServerValidator(o.TLSPassthrough, o.SnippetsEnabled, o.IsPlus),
		o.TLSPassthrough,
		o.SnippetsEnabled,
		false,
		o.IPV6Disabled,
	)
	lbc.secretStore = secrets.NewLocalSecretStore(o.Configurator)
	return &VerifC07{lbc: lbc, nsi: nsi}
}

// AddService / AddEndpointSlice / AddPod / AddPolicy / AddSecret fill the listers (the cluster state).
func (v *VerifC07) AddService(s *api_v1.Service) { _ = v.nsi.svcLister.Add(s) }

// AddEndpointSlice adds an EndpointSlice.
func (v *VerifC07) AddEndpointSlice(e *discovery_v1.EndpointSlice) {
	_ = v.nsi.endpointSliceLister.Add(e)
}

// AddPod adds a Pod.
func (v *VerifC07) AddPod(p *api_v1.Pod) { _ = v.nsi.podLister.Add(p) }

// AddPolicy adds a Policy.
func (v *VerifC07) AddPolicy(p *conf_v1.Policy) { _ = v.nsi.policyLister.Add(p) }

// AddSecret hands a Secret to the real secret store (which validates it).
func (v *VerifC07) AddSecret(s *api_v1.Secret) { v.lbc.secretStore.AddOrUpdateSecret(s) }

// VerifChange is the projection of a ResourceChange.
type VerifChange struct {
	Op   string
	Kind string
	Key  string
	Err  string
}

func (v *VerifC07) apply(changes []ResourceChange) []VerifChange {
	lbc := v.lbc
	var out []VerifChange
	for _, c := range changes {
		vc := VerifChange{}
		var err error
		if c.Op == AddOrUpdate {
			vc.Op = "upsert"
			switch impl := c.Resource.(type) {
			case *VirtualServerConfiguration:
				vc.Kind, vc.Key = "vs", getResourceKey(&impl.VirtualServer.ObjectMeta)
				_, err = lbc.configurator.AddOrUpdateVirtualServer(lbc.createVirtualServerEx(impl.VirtualServer, impl.VirtualServerRoutes))
			case *IngressConfiguration:
				vc.Kind, vc.Key = "ing", getResourceKey(&impl.Ingress.ObjectMeta)
				if impl.IsMaster {
					_, err = lbc.configurator.AddOrUpdateMergeableIngress(lbc.createMergeableIngresses(impl))
				} else {
					_, err = lbc.configurator.AddOrUpdateIngress(lbc.createIngressEx(impl.Ingress, impl.ValidHosts, nil))
				}
			case *TransportServerConfiguration:
				vc.Kind, vc.Key = "ts", getResourceKey(&impl.TransportServer.ObjectMeta)
				_, err = lbc.configurator.AddOrUpdateTransportServer(lbc.createTransportServerEx(impl.TransportServer, impl.ListenerPort, impl.IPv4, impl.IPv6))
			}
		} else if c.Op == Delete {
			vc.Op = "delete"
			switch impl := c.Resource.(type) {
			case *VirtualServerConfiguration:
				vc.Kind, vc.Key = "vs", getResourceKey(&impl.VirtualServer.ObjectMeta)
				err = lbc.configurator.DeleteVirtualServer(vc.Key, false)
			case *IngressConfiguration:
				vc.Kind, vc.Key = "ing", getResourceKey(&impl.Ingress.ObjectMeta)
				err = lbc.configurator.DeleteIngress(vc.Key, false)
			case *TransportServerConfiguration:
				vc.Kind, vc.Key = "ts", getResourceKey(&impl.TransportServer.ObjectMeta)
				err = lbc.configurator.DeleteTransportServer(vc.Key)
			}
		}
		if err != nil {
			vc.Err = err.Error()
		}
		out = append(out, vc)
	}
	return out
}

// Each mutator runs the real Configuration (validation + arbitration) and then applies the
// changes to the real Configurator exactly as processChanges dispatches them.
// It returns the changes and the number of problems (rejections / warnings) reported.

// AddIngress adds or updates an Ingress.
func (v *VerifC07) AddIngress(ing *networking.Ingress) ([]VerifChange, int) {
	ch, pr := v.lbc.configuration.AddOrUpdateIngress(ing)
	return v.apply(ch), v.note(pr)
}

// DeleteIngress deletes an Ingress.
func (v *VerifC07) DeleteIngress(key string) ([]VerifChange, int) {
	ch, pr := v.lbc.configuration.DeleteIngress(key)
	return v.apply(ch), v.note(pr)
}

// AddVirtualServer adds or updates a VirtualServer.
func (v *VerifC07) AddVirtualServer(vs *conf_v1.VirtualServer) ([]VerifChange, int) {
	ch, pr := v.lbc.configuration.AddOrUpdateVirtualServer(vs)
	return v.apply(ch), v.note(pr)
}

// DeleteVirtualServer deletes a VirtualServer.
func (v *VerifC07) DeleteVirtualServer(key string) ([]VerifChange, int) {
	ch, pr := v.lbc.configuration.DeleteVirtualServer(key)
	return v.apply(ch), v.note(pr)
}

// AddVirtualServerRoute adds or updates a VirtualServerRoute.
func (v *VerifC07) AddVirtualServerRoute(vsr *conf_v1.VirtualServerRoute) ([]VerifChange, int) {
	ch, pr := v.lbc.configuration.AddOrUpdateVirtualServerRoute(vsr)
	return v.apply(ch), v.note(pr)
}

// DeleteVirtualServerRoute deletes a VirtualServerRoute.
func (v *VerifC07) DeleteVirtualServerRoute(key string) ([]VerifChange, int) {
	ch, pr := v.lbc.configuration.DeleteVirtualServerRoute(key)
	return v.apply(ch), v.note(pr)
}

// AddTransportServer adds or updates a TransportServer.
func (v *VerifC07) AddTransportServer(ts *conf_v1.TransportServer) ([]VerifChange, int) {
	ch, pr := v.lbc.configuration.AddOrUpdateTransportServer(ts)
	return v.apply(ch), v.note(pr)
}

// DeleteTransportServer deletes a TransportServer.
func (v *VerifC07) DeleteTransportServer(key string) ([]VerifChange, int) {
	ch, pr := v.lbc.configuration.DeleteTransportServer(key)
	return v.apply(ch), v.note(pr)
}

// SetGlobalConfiguration installs a GlobalConfiguration.
func (v *VerifC07) SetGlobalConfiguration(gc *conf_v1.GlobalConfiguration) ([]VerifChange, int, error) {
	ch, pr, err := v.lbc.configuration.AddOrUpdateGlobalConfiguration(gc)
	return v.apply(ch), v.note(pr), err
}

// UpdateAll regenerates everything the way updateAllConfigs does: main config plus every
// accepted resource.
func (v *VerifC07) UpdateAll() error {
	resources := v.lbc.configuration.GetResources()
	_, err := v.lbc.configurator.UpdateConfig(v.lbc.createExtendedResources(resources))
	return err
}

// Accepted lists the resources currently holding a host / listener (the accepted set).
func (v *VerifC07) Accepted() []string {
	var out []string
	for _, r := range v.lbc.configuration.GetResources() {
		switch impl := r.(type) {
		case *VirtualServerConfiguration:
			s := "vs:" + getResourceKey(&impl.VirtualServer.ObjectMeta)
			for _, vsr := range impl.VirtualServerRoutes {
				s += fmt.Sprintf("+vsr:%s/%s", vsr.Namespace, vsr.Name)
			}
			out = append(out, s)
		case *IngressConfiguration:
			s := "ing:" + getResourceKey(&impl.Ingress.ObjectMeta)
			if impl.IsMaster {
				s = "master:" + getResourceKey(&impl.Ingress.ObjectMeta)
				for _, m := range impl.Minions {
					s += "+minion:" + getResourceKey(&m.Ingress.ObjectMeta)
				}
			}
			out = append(out, s)
		case *TransportServerConfiguration:
			out = append(out, "ts:"+getResourceKey(&impl.TransportServer.ObjectMeta))
		}
	}
	return out
}

// VerifValidateIngress exposes the real Ingress validator.
func VerifValidateIngress(ing *networking.Ingress, isPlus, snippets bool) []string {
	var out []string
	for _, e := range validateIngress(ing, isPlus, false, false, false, snippets) {
		out = append(out, e.Field)
	}
	return out
}

// ProblemLog collects reason + message of every ConfigurationProblem (debugging aid, VERIF_C07_DEBUG).
var ProblemLog []string

func (v *VerifC07) note(pr []ConfigurationProblem) int {
	for _, p := range pr {
		ProblemLog = append(ProblemLog, p.Reason+": "+p.Message)
	}
	return len(pr)
}
