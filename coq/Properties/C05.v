(* C05 -- placeholder statement until the reporting invariant lands (Arb/ReportProofs.v). *)
From Coq Require Import List ZArith String Bool.
From NIC Require Import Base.SMap Arb.Types Arb.Model Arb.Spec Arb.InvProofs.
Theorem C05_state_function_of_objects :
  forall c es, hosts (run c es) = hosts_of_objs c (objs_after es) /\ lhosts (run c es) = lhosts_of_objs (objs_after es).
Proof. exact hosts_function_of_objs. Qed.
Print Assumptions C05_state_function_of_objects.
