(* Evaluation of the arbitration model and of the decidable specifications on what the harness
   observed on the real k8s.Configuration.  No proofs in this file. *)
From Coq Require Import List ZArith String Ascii Bool.
From NIC Require Import Base.SMap Arb.Types Arb.Model Arb.Spec.
Import ListNotations.
Open Scope string_scope.
Open Scope Z_scope.

(* ---- decidable equality on the projected types (transparent, so vm_compute can run it) ---- *)
Definition pair_dec {A B} (da : forall a b : A, {a = b} + {a <> b}) (db : forall a b : B, {a = b} + {a <> b})
  : forall a b : A * B, {a = b} + {a <> b}.
Proof. decide equality. Defined.

Definition meta_dec : forall a b : meta, {a = b} + {a <> b}.
Proof. decide equality; auto using string_dec, Z.eq_dec. Defined.
Definition ikind_dec : forall a b : ikind, {a = b} + {a <> b}.
Proof. decide equality. Defined.
Definition ingress_dec : forall a b : ingress, {a = b} + {a <> b}.
Proof. decide equality; auto using string_dec, bool_dec, meta_dec, ikind_dec, (list_eq_dec string_dec). Defined.
Definition vserver_dec : forall a b : vserver, {a = b} + {a <> b}.
Proof.
  decide equality; auto using string_dec, meta_dec.
  - decide equality. apply (pair_dec string_dec string_dec).
  - apply (list_eq_dec (pair_dec string_dec string_dec)).
Defined.
Definition vsroute_dec : forall a b : vsroute, {a = b} + {a <> b}.
Proof. decide equality; auto using string_dec, meta_dec, (list_eq_dec string_dec). Defined.
Definition tserver_dec : forall a b : tserver, {a = b} + {a <> b}.
Proof. decide equality; auto using string_dec, meta_dec. Defined.
Definition smap_bool_dec : forall a b : smap bool, {a = b} + {a <> b} :=
  list_eq_dec (pair_dec string_dec bool_dec).
Definition minion_dec : forall a b : minion_cfg, {a = b} + {a <> b}.
Proof. decide equality; auto using ingress_dec, smap_bool_dec. Defined.
Definition resource_dec : forall a b : resource, {a = b} + {a <> b}.
Proof.
  decide equality.
  - decide equality; auto using ingress_dec, bool_dec, smap_bool_dec, (list_eq_dec minion_dec), (list_eq_dec string_dec).
    apply (list_eq_dec (pair_dec string_dec (list_eq_dec string_dec))).
  - decide equality; auto using string_dec, Z.eq_dec, vserver_dec, (list_eq_dec vsroute_dec), (list_eq_dec string_dec).
  - decide equality; auto using string_dec, Z.eq_dec, tserver_dec, (list_eq_dec string_dec).
Defined.
Definition op_dec : forall a b : op, {a = b} + {a <> b}.
Proof. decide equality. Defined.
Definition change_dec : forall a b : change, {a = b} + {a <> b}.
Proof. decide equality; auto using bool_dec, resource_dec, op_dec. Defined.
Definition problem_dec : forall a b : problem, {a = b} + {a <> b}.
Proof. decide equality; auto using bool_dec, string_dec. Defined.

Definition eqb_of {A} (d : forall a b : A, {a = b} + {a <> b}) (a b : A) : bool := if d a b then true else false.

(* ---- normalisation: warnings are compared as sorted lists (the code appends some of them while
   ranging over a Go map) ---- *)
Fixpoint sinsert (x : string) (l : list string) : list string :=
  match l with
  | [] => [x]
  | y :: r => if String.leb x y then x :: l else y :: sinsert x r
  end.
Definition ssort (l : list string) : list string := fold_right sinsert [] l.

Definition norm_res (r : resource) : resource :=
  match r with
  | RIng c => RIng (mkIC (ic_ing c) (ic_master c) (ic_minions c) (ic_valid_hosts c) (ssort (ic_warnings c))
                         (smap_map ssort (ic_child_warnings c)))
  | RVS c => RVS (mkVC (vc_vs c) (vc_vsrs c) (ssort (vc_warnings c)) (vc_http_port c) (vc_https_port c)
                       (vc_http4 c) (vc_http6 c) (vc_https4 c) (vc_https6 c))
  | RTS c => RTS (mkTC (tc_ts c) (tc_port c) (tc_ipv4 c) (tc_ipv6 c) (ssort (tc_warnings c)))
  end.

Definition norm_change (c : change) : change := mkCh (c_op c) (norm_res (c_res c)) (c_err c).

(* ---- observation of one step ---- *)
Record obs := mkObs {
  ob_changes : list change; ob_problems : list problem;
  ob_hosts : list (string * string); ob_lhosts : list (string * string);
  ob_res : list resource
}.

Definition hosts_view (s : state) : list (string * string) := map (fun kv => (fst kv, rkey (snd kv))) (hosts s).
Definition lhosts_view (s : state) : list (string * string) := map (fun kv => (fst kv, rkey (RTS (snd kv)))) (lhosts s).
Definition res_view (s : state) : list resource := map (fun kv => norm_res (snd kv)) (get_resources s).

Definition view_dec := list_eq_dec (pair_dec string_dec string_dec).

(* bit mask of the components on which model and implementation differ:
   1 changes, 2 problems, 4 hosts, 8 listener hosts, 16 resources (GetResources) *)
Definition compare_step (s : state) (cs : list change) (ps : list problem) (o : obs) : Z :=
  (if eqb_of (list_eq_dec change_dec) (map norm_change cs) (ob_changes o) then 0 else 1) +
  (if eqb_of (list_eq_dec problem_dec) ps (ob_problems o) then 0 else 2) +
  (if eqb_of view_dec (hosts_view s) (ob_hosts o) then 0 else 4) +
  (if eqb_of view_dec (lhosts_view s) (ob_lhosts o) then 0 else 8) +
  (if eqb_of (list_eq_dec resource_dec) (res_view s) (ob_res o) then 0 else 16).

Definition compare_final (s : state) (o : obs) : Z :=
  (if eqb_of view_dec (hosts_view s) (ob_hosts o) then 0 else 4) +
  (if eqb_of view_dec (lhosts_view s) (ob_lhosts o) then 0 else 8) +
  (if eqb_of (list_eq_dec resource_dec) (res_view s) (ob_res o) then 0 else 16).

(* run the model along the history; returns (mask of all disagreements, first step that disagreed, final state) *)
Fixpoint compare_run (c : cfg) (s : state) (es : list event) (os : list obs) (i : Z) (mask first : Z) : Z * Z * state :=
  match es, os with
  | e :: er, o :: orest =>
      let '(s', cs, ps) := step c s e in
      let d := compare_step s' cs ps o in
      compare_run c s' er orest (i + 1) (Z.lor mask d) (if (first =? 0) && negb (d =? 0) then i else first)
  | [], [] => (mask, first, s)
  | _, _ => (Z.lor mask 32, first, s)
  end.

(* ---- S: specifications on the implementation's own observations ---- *)

(* C01/C02 after every step: the observed owner of every host / listener+host is the least claimant
   of the object set that the history (alone) determines *)
Fixpoint owners_spec_run (listeners : bool) (c : cfg) (o : objs) (es : list event) (os : list obs) (i : Z) : Z :=
  match es, os with
  | e :: er, ob :: orest =>
      let o' := apply_event o e in
      if negb (if listeners then lhosts_spec_ok o' (ob_lhosts ob) else hosts_spec_ok c o' (ob_hosts ob)) then i
      else owners_spec_run listeners c o' er orest (i + 1)
  | _, _ => 0
  end.

(* order independence on the implementation: the final observation of every alternative history
   equals the final observation of the main one *)
Definition obs_final_eqb (a b : obs) : bool :=
  eqb_of view_dec (ob_hosts a) (ob_hosts b) && eqb_of view_dec (ob_lhosts a) (ob_lhosts b) &&
  eqb_of (list_eq_dec resource_dec) (ob_res a) (ob_res b).

(* an Ingress may win some of its hosts and lose others: the hosts an Ingress is rendered with (ValidHosts)
   are exactly those of its hosts that the host map assigns to it *)
Definition valid_hosts_ok (ob : obs) : bool :=
  forallb (fun r => match r with
                    | RIng ic => forallb (fun hb : string * bool =>
                                   Bool.eqb (snd hb) (match lookup (fst hb) (ob_hosts ob) with
                                                      | Some k => String.eqb k (rkey r) | None => false end))
                                         (ic_valid_hosts ic)
                    | _ => true end) (ob_res ob).

Fixpoint valid_hosts_run (os : list obs) (i : Z) : Z :=
  match os with
  | [] => 0
  | o :: r => if valid_hosts_ok o then valid_hosts_run r (i + 1) else i
  end.

(* a hostname is one hostname however it is spelled: DNS names, NGINX server names and the keys of the TLS
   passthrough map are case-insensitive, so two keys of Configuration.hosts that differ in letter case only
   are one host with two owners.  (Ingress hosts are lower case by the API server's own validation, the hosts of
   the custom resources by the controller's validators.) *)
Definition lower_ascii (a : Ascii.ascii) : Ascii.ascii :=
  let n := Ascii.nat_of_ascii a in
  if (Nat.leb 65 n && Nat.leb n 90)%bool then Ascii.ascii_of_nat (n + 32) else a.

Fixpoint lower (s : string) : string :=
  match s with
  | EmptyString => EmptyString
  | String a r => String (lower_ascii a) (lower r)
  end.

Fixpoint ci_dup (ks : list string) : bool :=
  match ks with
  | [] => false
  | k :: r => existsb (String.eqb (lower k)) (map lower r) || ci_dup r
  end.

Fixpoint ci_hosts_run (os : list obs) (i : Z) : Z :=
  match os with
  | [] => 0
  | o :: r => if ci_dup (map fst (ob_hosts o)) then i else ci_hosts_run r (i + 1)
  end.

(* "at every moment": the controller applies the changes of a batch one at a time (each with its own
   reload); after every single change no host may be configured for two resources *)
Definition served_hosts (r : resource) : list string :=
  match r with
  | RIng ic => filter_map (fun hb : string * bool => if snd hb then Some (fst hb) else None) (ic_valid_hosts ic)
  | RVS vc => [v_host (vc_vs vc)]
  | RTS tc => if is_passthrough (tc_ts tc) then [t_host (tc_ts tc)] else []
  end.

Fixpoint nodup_str (l : list string) : bool :=
  match l with
  | [] => true
  | x :: r => negb (existsb (String.eqb x) r) && nodup_str r
  end.

Definition apply_change1 (sh : smap resource) (c : change) : smap resource :=
  match c_op c with
  | Delete => remove (rkey (c_res c)) sh
  | AddOrUpdate => insert (rkey (c_res c)) (c_res c) sh
  end.

Fixpoint transient_changes (sh : smap resource) (cs : list change) : bool * smap resource :=
  match cs with
  | [] => (true, sh)
  | c :: r => let sh' := apply_change1 sh c in
              if nodup_str (flat_map (fun kv => served_hosts (snd kv)) sh') then transient_changes sh' r else (false, sh')
  end.

Fixpoint transient_run (sh : smap resource) (os : list obs) (i : Z) : Z :=
  match os with
  | [] => 0
  | o :: r => let '(ok, sh') := transient_changes sh (ob_changes o) in
              if ok then transient_run sh' r (i + 1) else i
  end.

(* one case: main history with per-step observations, alternatives with final observations only.
   row: [id; mask of model/implementation disagreements along the main history;
         mask of disagreements on the final states (main and alternatives);
         first step of the main history that disagreed (0 = none);
         first step at which the observed host owners differ from the specification (0 = never);
         first step at which the observed listener+host owners differ from the specification (0 = never);
         host-owner spec holds on the final state of every alternative (1/0); same for listener hosts (1/0);
         order independence holds on the implementation (1/0);
         number of events] *)
Definition arb_case (id : Z) (c : cfg) (es : list event) (os : list obs) (final : obs)
           (alts : list (list event * obs)) : list Z :=
  let '(mask, first, s) := compare_run c init es os 1 0 0 in
  let mfin := fold_left Z.lor (map (fun a => compare_final (run c (fst a)) (snd a)) alts) (compare_final s final) in
  let sp := owners_spec_run false c objs0 es os 1 in
  let spl := owners_spec_run true c objs0 es os 1 in
  let sp_alts := forallb (fun a => hosts_spec_ok c (objs_after (fst a)) (ob_hosts (snd a))) alts in
  let spl_alts := forallb (fun a => lhosts_spec_ok (objs_after (fst a)) (ob_lhosts (snd a))) alts in
  let oi := forallb (fun a => obs_final_eqb final (snd a)) alts in
  [id; mask; mfin; first; sp; spl; if sp_alts then 1 else 0; if spl_alts then 1 else 0; if oi then 1 else 0;
   Z.of_nat (List.length es); valid_hosts_run os 1; transient_run [] os 1; ci_hosts_run os 1].

(* ---- C03: replay the implementation's own change batches into a shadow ---- *)

(* what the NGINX configuration of a resource is rendered from: everything except the warnings *)
Definition attrs (r : resource) : resource :=
  match r with
  | RIng c => RIng (mkIC (ic_ing c) (ic_master c) (ic_minions c) (ic_valid_hosts c) [] [])
  | RVS c => RVS (mkVC (vc_vs c) (vc_vsrs c) [] (vc_http_port c) (vc_https_port c)
                       (vc_http4 c) (vc_http6 c) (vc_https4 c) (vc_https6 c))
  | RTS c => RTS (mkTC (tc_ts c) (tc_port c) (tc_ipv4 c) (tc_ipv6 c) [])
  end.

Definition apply_change (sh : smap resource) (c : change) : smap resource :=
  match c_op c with
  | Delete => remove (rkey (c_res c)) sh
  | AddOrUpdate => insert (rkey (c_res c)) (attrs (c_res c)) sh
  end.

Definition expected_shadow (rs : list resource) : smap resource :=
  of_list (map (fun r => (rkey r, attrs r)) rs).

Fixpoint deletes_first (cs : list change) (seen_update : bool) : bool :=
  match cs with
  | [] => true
  | c :: r => match c_op c with
              | Delete => negb seen_update && deletes_first r seen_update
              | AddOrUpdate => deletes_first r true
              end
  end.

(* which attribute of a resource is stale in the shadow: 1 uid, 2 generation/annotations,
   3 valid hosts, 4 minions, 5 routes, 6 TS port, 7 TS ipv4/ipv6, 8 VS http port/addresses,
   9 VS https port, 10 VS https addresses, 11 other *)
Definition meta_diff (a b : meta) : Z :=
  if negb (String.eqb (m_uid a) (m_uid b)) then 1
  else if negb (m_gen a =? m_gen b) || negb (m_ann a =? m_ann b) then 2 else 0.

Definition stale_field (have want : resource) : Z :=
  match have, want with
  | RIng x, RIng y =>
      let d := meta_diff (i_meta (ic_ing x)) (i_meta (ic_ing y)) in
      if negb (d =? 0) then d
      else if negb (eqb_of smap_bool_dec (ic_valid_hosts x) (ic_valid_hosts y)) then 3
      else if negb (eqb_of (list_eq_dec minion_dec) (ic_minions x) (ic_minions y)) then 4 else 11
  | RVS x, RVS y =>
      let d := meta_diff (v_meta (vc_vs x)) (v_meta (vc_vs y)) in
      if negb (d =? 0) then d
      else if negb (eqb_of (list_eq_dec vsroute_dec) (vc_vsrs x) (vc_vsrs y)) then 5
      else if negb (vc_http_port x =? vc_http_port y) || negb (String.eqb (vc_http4 x) (vc_http4 y)) ||
              negb (String.eqb (vc_http6 x) (vc_http6 y)) then 8
      else if negb (vc_https_port x =? vc_https_port y) then 9
      else if negb (String.eqb (vc_https4 x) (vc_https4 y)) || negb (String.eqb (vc_https6 x) (vc_https6 y)) then 10
      else 11
  | RTS x, RTS y =>
      let d := meta_diff (t_meta (tc_ts x)) (t_meta (tc_ts y)) in
      if negb (d =? 0) then d
      else if negb (tc_port x =? tc_port y) then 6
      else if negb (String.eqb (tc_ipv4 x) (tc_ipv4 y)) || negb (String.eqb (tc_ipv6 x) (tc_ipv6 y)) then 7 else 11
  | _, _ => 11
  end.

(* 0 = shadow equals the active set; 30 = an active resource is missing from the shadow;
   31 = the shadow holds a resource that is not active; 10+f = attribute f is stale *)
Definition shadow_diff (sh want : smap resource) : Z :=
  if eqb_of (list_eq_dec (pair_dec string_dec resource_dec)) sh want then 0
  else
    match filter_map (fun kv => match lookup (fst kv) sh with
                                | None => Some 30
                                | Some have => if eqb_of resource_dec have (snd kv) then None
                                               else Some (10 + stale_field have (snd kv))
                                end) want with
    | d :: _ => d
    | [] => 31
    end.

(* returns (first failing step, code); code 40 = a delete after an addOrUpdate in one batch *)
Fixpoint shadow_run (sh : smap resource) (os : list obs) (i : Z) : Z * Z :=
  match os with
  | [] => (0, 0)
  | o :: r =>
      if negb (deletes_first (ob_changes o) false) then (i, 40)
      else
        let sh' := fold_left apply_change (ob_changes o) sh in
        let d := shadow_diff sh' (expected_shadow (ob_res o)) in
        if d =? 0 then shadow_run sh' r (i + 1) else (i, d)
  end.

(* "as they are in the current state": the listener ports and addresses of an applied VirtualServer /
   TransportServer are a function of the object and of the CURRENT GlobalConfiguration (the listeners that
   passed validation; the event carries them).  Evaluated on the implementation's own resources, without the
   model's state: 0 = current, 6..10 = the stale attribute as in [stale_field] *)
Definition listener_attrs_stale (g : option (list listener)) (r : resource) : Z :=
  match r with
  | RVS x =>
      let e := build_vs_cfg g (vc_vs x) [] [] in
      if negb (vc_http_port x =? vc_http_port e) || negb (String.eqb (vc_http4 x) (vc_http4 e)) ||
         negb (String.eqb (vc_http6 x) (vc_http6 e)) then 8
      else if negb (vc_https_port x =? vc_https_port e) then 9
      else if negb (String.eqb (vc_https4 x) (vc_https4 e)) || negb (String.eqb (vc_https6 x) (vc_https6 e)) then 10
      else 0
  | RTS x =>
      if negb (is_passthrough (tc_ts x)) then
        let '(p, a4, a6) := match ts_listener g (tc_ts x) with
                            | Some l => (l_port l, l_ipv4 l, l_ipv6 l)
                            | None => (0, ""%string, ""%string)
                            end in
        if negb (tc_port x =? p) then 6
        else if negb (String.eqb (tc_ipv4 x) a4) || negb (String.eqb (tc_ipv6 x) a6) then 7 else 0
      else 0
  | RIng _ => 0
  end.

Fixpoint listeners_current_run (o : objs) (es : list event) (os : list obs) (i : Z) : Z * Z :=
  match es, os with
  | e :: er, ob :: or_ =>
      let o' := apply_event o e in
      match filter (fun d => negb (d =? 0)) (map (listener_attrs_stale (o_gc o')) (ob_res ob)) with
      | d :: _ => (i, d)
      | [] => listeners_current_run o' er or_ (i + 1)
      end
  | _, _ => (0, 0)
  end.

Definition c03_case (id : Z) (c : cfg) (es : list event) (os : list obs) (final : obs)
           (alts : list (list event * obs)) : list Z :=
  let '(mask, first, s) := compare_run c init es os 1 0 0 in
  let '(step_, code) := shadow_run [] os 1 in
  let '(lstep, lcode) := listeners_current_run objs0 es os 1 in
  [id; mask; first; step_; code; Z.of_nat (List.length es); lstep; lcode].

(* ---- C04: composition, evaluated on the implementation's own resources ---- *)

Definition option_dec {A} (d : forall a b : A, {a = b} + {a <> b}) : forall a b : option A, {a = b} + {a <> b}.
Proof. decide equality. Defined.

Definition key_of_ing (i : ingress) : string := mkey (i_meta i).

(* the paths a minion serves *)
Definition true_paths (m : minion_cfg) : list string :=
  filter_map (fun kv : string * bool => if snd kv then Some (fst kv) else None) (mc_valid_paths m).

(* claims (path, minion) of the minions of one master host, in key order *)
Definition path_claims (is_ : smap ingress) (host : string) : list (string * hold) :=
  flat_map (fun i => map (fun p => (p, (key_of_ing i, i_meta i))) (i_paths i)) (minions_of is_ host).

Definition path_owner (is_ : smap ingress) (host p : string) : option string :=
  option_map fst (least (claimants (path_claims is_ host) p)).

Definition str_list_eqb := eqb_of (list_eq_dec string_dec).

(* a master is rendered with exactly the minions of its host; each path is served by exactly the
   least claimant; a regular Ingress has no minions; only the owner of the host composes *)
Definition ing_composition_ok (o : objs) (obs_hosts : list (string * string)) (c : ing_cfg) : bool :=
  let i := ic_ing c in
  if ic_master c then
    opt_str_eqb (lookup (host0 i) obs_hosts) (Some (ing_rkey i)) &&
    str_list_eqb (map (fun m => key_of_ing (mc_ing m)) (ic_minions c))
                 (map key_of_ing (minions_of (o_ings o) (host0 i))) &&
    forallb (fun m => eqb_of (option_dec ingress_dec) (lookup (key_of_ing (mc_ing m)) (o_ings o)) (Some (mc_ing m))) (ic_minions c) &&
    forallb (fun m =>
      forallb (fun p => Bool.eqb (existsb (String.eqb p) (true_paths m))
                                 (opt_str_eqb (path_owner (o_ings o) (host0 i) p) (Some (key_of_ing (mc_ing m)))))
              (i_paths (mc_ing m)) &&
      forallb (fun p => existsb (String.eqb p) (i_paths (mc_ing m))) (true_paths m))
      (ic_minions c)
  else match ic_minions c with [] => true | _ => false end.

(* a VirtualServer is rendered with exactly the referenced, existing routes whose host equals its own
   and whose subroutes lie under the referencing route (plus converted challenge Ingresses), each once *)
Fixpoint nodup_keys (l : list string) : bool :=
  match l with [] => true | x :: r => negb (existsb (String.eqb x) r) && nodup_keys r end.

Definition vs_composition_ok (cf : cfg) (o : objs) (obs_hosts : list (string * string)) (c : vs_cfg) : bool :=
  let v := vc_vs c in
  let expected := fst (build_vsrs (o_vsrs o) v (v_routes v)) +++
                  filter (fun r => String.eqb (v_host v) (r_host r)) (challenge_vsrs cf (o_vss o) (o_ings o)) in
  opt_str_eqb (lookup (v_host v) obs_hosts) (Some (vs_rkey v)) &&
  eqb_of (list_eq_dec vsroute_dec) (vc_vsrs c) expected &&
  forallb (fun r => String.eqb (r_host r) (v_host v)) (vc_vsrs c).


Definition composition_ok (cf : cfg) (o : objs) (ob : obs) : bool :=
  forallb (fun r => match r with
                    | RIng c => ing_composition_ok o (ob_hosts ob) c
                    | RVS c => vs_composition_ok cf o (ob_hosts ob) c
                    | RTS _ => true end) (ob_res ob).

(* F12: the same route attached twice to one VirtualServer *)
Definition vsrs_once (ob : obs) : bool :=
  forallb (fun r => match r with
                    | RVS c => nodup_keys (map (fun x => mkey (r_meta x)) (vc_vsrs c))
                    | _ => true end) (ob_res ob).

Fixpoint composition_run (cf : cfg) (o : objs) (es : list event) (os : list obs) (i : Z) : Z * Z :=
  match es, os with
  | e :: er, ob :: orest =>
      let o' := apply_event o e in
      if negb (composition_ok cf o' ob) then (i, 1)
      else if negb (vsrs_once ob) then (i, 2)
      else composition_run cf o' er orest (i + 1)
  | _, _ => (0, 0)
  end.

Definition c04_case (id : Z) (c : cfg) (es : list event) (os : list obs) (final : obs)
           (alts : list (list event * obs)) : list Z :=
  let '(mask, first, s) := compare_run c init es os 1 0 0 in
  let '(step_, code) := composition_run c objs0 es os 1 in
  let oi := forallb (fun a => obs_final_eqb final (snd a)) alts in
  [id; mask; first; step_; code; if oi then 1 else 0; Z.of_nat (List.length es)].

(* C04 at the rendering projection: the locations the real generateNginxCfgForMergeableIngresses writes for a
   master (server [host]) are exactly, for every minion of that host, the paths of which that minion is the
   least claimant -- each path served by exactly one minion, the oldest *)
Definition expected_locations (o : objs) (host : string) : list (string * string) :=
  flat_map (fun i => filter_map (fun p => match least (claimants (path_claims (o_ings o) host) p) with
                                          | Some y => if String.eqb (fst y) (key_of_ing i) then Some (p, key_of_ing i) else None
                                          | None => None end) (i_paths i))
           (minions_of (o_ings o) host).

Definition loc_dec := pair_dec string_dec string_dec.
Definition subset_locs (a b : list (string * string)) : bool :=
  forallb (fun x => existsb (fun y => eqb_of loc_dec x y) b) a.

Definition render_ok (o : objs) (host : string) (locs : list (string * string)) : bool :=
  let exp := expected_locations o host in
  subset_locs locs exp && subset_locs exp locs &&
  (* one minion per path *)
  forallb (fun x => forallb (fun y => negb (String.eqb (fst x) (fst y)) || String.eqb (snd x) (snd y)) locs) locs.

Fixpoint render_run (o : objs) (es : list event) (ms : list (list (string * list (string * string)))) (i : Z) : Z :=
  match es, ms with
  | e :: er, m :: mr =>
      let o' := apply_event o e in
      if forallb (fun hm => render_ok o' (fst hm) (snd hm)) m then render_run o' er mr (i + 1) else i
  | _, _ => 0
  end.

Definition c04_render_case (id : Z) (c : cfg) (es : list event) (os : list obs) (final : obs)
           (alts : list (list event * obs)) (ms : list (list (string * list (string * string)))) : list Z :=
  [id; render_run objs0 es ms 1; Z.of_nat (List.length (List.concat ms))].

(* ---- C16: the controller acts only on resources of its own class ---- *)

(* HasCorrectIngressClass with ingress class "nginx": for an Ingress the annotation (if non-empty)
   takes precedence over spec.ingressClassName and an empty class is NOT accepted; for the custom
   resources the class field may be empty *)
Definition has_class (own : string) (is_ingress : bool) (ann field : option string) : bool :=
  if is_ingress then
    let a := match ann with Some x => x | None => "" end in
    let cl := if String.eqb a "" then match field with Some f => f | None => "" end else a in
    String.eqb cl own
  else
    let cl := match field with Some f => f | None => "" end in
    String.eqb cl own || String.eqb cl "".

Definition event_obj (e : event) : option (string * bool) :=   (* key with kind, class ok *)
  match e with
  | EIng i cls _ => Some (ing_rkey i, cls)
  | EVS v cls _ => Some (vs_rkey v, cls)
  | EVSR r cls _ => Some (vsr_pkey r, cls)
  | ETS t cls _ => Some (ts_rkey t, cls)
  | _ => None
  end.

(* a foreign-class event is answered silently at the level of Configuration: nothing but delete changes
   without error for that object, and no problem about it.  (The delete change may still carry the
   warnings the resource had while it was served; whether the controller stays silent about them is
   observed directly on the recorded Events and status writes, see [ctl_run].) *)
Definition silent_for (k : string) (ob : obs) : Z :=
  if negb (forallb (fun c => negb (String.eqb (rkey (c_res c)) k) ||
                             (match c_op c with Delete => true | AddOrUpdate => false end && negb (c_err c))) (ob_changes ob)) then 1
  else if negb (forallb (fun p => negb (String.eqb (p_obj p) k)) (ob_problems ob)) then 3
  else 0.

Definition obs_eq_mask (a b : obs) : Z :=
  (if eqb_of (list_eq_dec change_dec) (ob_changes a) (ob_changes b) then 0 else 1) +
  (if eqb_of (list_eq_dec problem_dec) (ob_problems a) (ob_problems b) then 0 else 2) +
  (if eqb_of view_dec (ob_hosts a) (ob_hosts b) then 0 else 4) +
  (if eqb_of view_dec (ob_lhosts a) (ob_lhosts b) then 0 else 8) +
  (if eqb_of (list_eq_dec resource_dec) (ob_res a) (ob_res b) then 0 else 16).

(* returns (first step where main and erased differ, mask there, first step with a non-silent answer, its code) *)
Fixpoint c16_run (es : list event) (os os' : list obs) (i : Z) (acc : Z * Z * Z * Z) : Z * Z * Z * Z :=
  match es, os, os' with
  | e :: er, o :: orest, o' :: orest' =>
      let '(d1, m1, d2, c2) := acc in
      let m := obs_eq_mask o o' in
      let sil := match event_obj e with
                 | Some (k, false) => silent_for k o
                 | _ => 0 end in
      c16_run er orest orest' (i + 1)
              (if (d1 =? 0) && negb (m =? 0) then i else d1, if (d1 =? 0) && negb (m =? 0) then m else m1,
               if (d2 =? 0) && negb (sil =? 0) then i else d2, if (d2 =? 0) && negb (sil =? 0) then sil else c2)
  | _, _, _ => acc
  end.

(* raw class inputs per event: (is_ingress, annotation, field, observed verdict of HasCorrectIngressClass) *)
Definition class_pred_ok (raw : list (bool * option string * option string * bool)) : bool :=
  forallb (fun x => match x with (ing, ann, field, seen) => Bool.eqb (has_class "nginx" ing ann field) seen end) raw.

Definition c16_case (id : Z) (c : cfg) (es : list event) (os : list obs) (final : obs)
           (alts : list (list event * obs)) (es' : list event) (os' : list obs)
           (raw : list (bool * option string * option string * bool)) : list Z :=
  let '(mask, first, s) := compare_run c init es os 1 0 0 in
  let '(d1, m1, d2, c2) := c16_run es os os' 1 (0, 0, 0, 0) in
  [id; mask; first; d1; m1; d2; c2; if class_pred_ok raw then 1 else 0;
   Z.of_nat (List.length (filter (fun e => match event_obj e with Some (_, false) => true | _ => false end) es))].

(* ---- C05: every resource not serving traffic has been told why; active ones are not ---- *)

Inductive report := ROk (with_warnings : bool) | RRejected | RProblem (is_error : bool) (reason : string).

Definition is_ok (r : report) : bool := match r with ROk _ => true | _ => false end.

Definition nonempty {A} (l : list A) : bool := match l with [] => false | _ => true end.

(* processChanges: what the controller reports for one change.  [in_cluster k] = the object still
   exists in the informer store and is of the controller's class (a delete change of an object that
   is gone, or that moved to another class, is not reported). *)
Definition reports_of_change (in_cluster : string -> bool) (c : change) : list (string * report) :=
  let r := c_res c in
  match c_op c with
  | AddOrUpdate =>
      (rkey r, ROk (nonempty (res_warnings r))) ::
      match r with
      | RIng ic => map (fun m => ("Ingress/" ++ key_of_ing (mc_ing m),
                                  ROk (nonempty (get [] (key_of_ing (mc_ing m)) (ic_child_warnings ic))))) (ic_minions ic)
      (* routes synthesised from cert-manager challenge Ingresses (no UID) are not cluster objects *)
      | RVS vc => map (fun x => (vsr_pkey x, ROk false))
                      (filter (fun x => negb (String.eqb (m_uid (r_meta x)) "")) (vc_vsrs vc))
      | RTS _ => []
      end
  | Delete =>
      if in_cluster (rkey r) && (c_err c || nonempty (res_warnings r)) then [(rkey r, RRejected)] else []
  end.

(* processChangesFromGlobalConfiguration reports only the VirtualServers and TransportServers it adds or
   updates; the delete changes of a GlobalConfiguration batch are applied but not reported *)
Definition reports_of_gc_change (c : change) : list (string * report) :=
  match c_op c, c_res c with
  | AddOrUpdate, RVS vc =>
      (rkey (c_res c), ROk (nonempty (vc_warnings vc))) ::
      map (fun x => (vsr_pkey x, ROk false)) (filter (fun x => negb (String.eqb (m_uid (r_meta x)) "")) (vc_vsrs vc))
  | AddOrUpdate, RTS tc => [(rkey (c_res c), ROk (nonempty (tc_warnings tc)))]
  | _, _ => []
  end.

(* the Events the controller emits also name the routes synthesised from challenge Ingresses *)
Definition synthetic_vsr_reports (c : change) : list (string * report) :=
  match c_op c, c_res c with
  | AddOrUpdate, RVS vc => map (fun x => (vsr_pkey x, ROk false)) (filter (fun x => String.eqb (m_uid (r_meta x)) "") (vc_vsrs vc))
  | _, _ => []
  end.

Definition is_gc_event (e : event) : bool := match e with EGC _ _ | EDelGC => true | _ => false end.

Definition reports_of_step_ev (e : event) (in_cluster : string -> bool) (ob : obs) : list (string * report) :=
  (if is_gc_event e then flat_map reports_of_gc_change (ob_changes ob)
   else flat_map (reports_of_change in_cluster) (ob_changes ob)) +++
  map (fun p => (p_obj p, RProblem (p_is_error p) (p_reason p))) (ob_problems ob).

Definition reports_of_step (in_cluster : string -> bool) (ob : obs) : list (string * report) :=
  flat_map (reports_of_change in_cluster) (ob_changes ob) +++
  map (fun p => (p_obj p, RProblem (p_is_error p) (p_reason p))) (ob_problems ob).

(* the cluster as the informers see it: last upsert per object, whatever its class or validity *)
Definition cluster_apply (cl : smap event) (e : event) : smap event :=
  match e with
  | EIng i _ _ => insert (ing_rkey i) e cl
  | EVS v _ _ => insert (vs_rkey v) e cl
  | EVSR r _ _ => insert (vsr_pkey r) e cl
  | ETS t _ _ => insert (ts_rkey t) e cl
  | EDelIng k => remove ("Ingress/" ++ k) cl
  | EDelVS k => remove ("VirtualServer/" ++ k) cl
  | EDelVSR k => remove ("VirtualServerRoute/" ++ k) cl
  | EDelTS k => remove ("TransportServer/" ++ k) cl
  | _ => cl
  end.

(* the object exists in the informer store and is of the controller's class: processChanges looks the
   object of a delete change up and reports nothing unless both hold *)
Definition own_in_cluster (cl : smap event) (k : string) : bool :=
  match lookup k cl with
  | Some e => match event_obj e with Some (_, cls) => cls | None => false end
  | None => false
  end.

Definition foreign_in_cluster (cl : smap event) (k : string) : bool :=
  match lookup k cl with
  | Some e => match event_obj e with Some (_, cls) => negb cls | None => false end
  | None => false
  end.

Definition owns_some_host (ob : obs) (k : string) : bool := existsb (fun hv => String.eqb (snd hv) k) (ob_hosts ob).
Definition owns_some_listener (ob : obs) (k : string) : bool := existsb (fun hv => String.eqb (snd hv) k) (ob_lhosts ob).

Definition attached_minion (ob : obs) (mk : string) : option bool :=   (* Some has_valid_path if attached *)
  match filter_map (fun r => match r with
                             | RIng ic => match filter (fun m => String.eqb (key_of_ing (mc_ing m)) mk) (ic_minions ic) with
                                          | m :: _ => Some (nonempty (true_paths m))
                                          | [] => None end
                             | _ => None end) (ob_res ob) with
  | b :: _ => Some b
  | [] => None
  end.

Definition attached_vsr (ob : obs) (r : vsroute) : bool :=
  existsb (fun x => match x with
                    | RVS vc => existsb (fun y => eqb_of vsroute_dec y r) (vc_vsrs vc)
                    | _ => false end) (ob_res ob).

(* 0 = the last report about the object is truthful; 1 = active but last report is not a success;
   2 = not applied but last report is a success (or there is none); 3 = attached minion without any
   valid path whose last report carries no warning *)
(* does the minion serve at least one of its paths according to the object set alone: for some path it is the
   least claimant among the minions of its master's host *)
Definition minion_serves (o : objs) (i : ingress) : bool :=
  existsb (fun p => match least (claimants (path_claims (o_ings o) (host0 i)) p) with
                    | Some y => String.eqb (fst y) (key_of_ing i)
                    | None => false end) (i_paths i).

Definition truthful (cf : cfg) (o : objs) (ob : obs) (last : smap report) (k : string) (e : event) : Z :=
  let rep := lookup k last in
  let want_ok (active : bool) : Z :=
    match rep with
    | Some r => if active then (if is_ok r then 0 else 1) else (if is_ok r then 2 else 0)
    | None => if active then 1 else 2
    end in
  match e with
  | EIng i true valid =>
      if cert_manager cf && i_challenge i then 0
      else if negb valid then want_ok false
      else if is_minion i then
        match attached_minion ob (key_of_ing i) with
        | Some _ =>
            (* attached: whether it serves a path is decided by the object set, not by the ValidPaths the
               implementation computed *)
            if minion_serves o i then want_ok true
            else match rep with Some (ROk true) => 0 | Some (ROk false) => 3 | Some _ => 0 | None => 3 end
        | None => want_ok false
        end
      else want_ok (owns_some_host ob k)
  | EVS v true valid => if negb valid then want_ok false else want_ok (owns_some_host ob k)
  | EVSR r true valid => if negb valid then want_ok false else want_ok (attached_vsr ob r)
  | ETS t true valid =>
      if negb valid then want_ok false
      else want_ok (owns_some_host ob k || owns_some_listener ob k)
  | _ => 0
  end.

(* reports are about objects, not names: when an object is deleted, or replaced by another object of the same
   name (different UID: deleted and created again before the worker ran), what was said about the old one does
   not count for the new one *)
Definition event_uid (e : event) : string :=
  match e with
  | EIng i _ _ => m_uid (i_meta i) | EVS v _ _ => m_uid (v_meta v)
  | EVSR r _ _ => m_uid (r_meta r) | ETS t _ _ => m_uid (t_meta t)
  | _ => "" end.

Definition forget (cl : smap event) (e : event) (last : smap report) : smap report :=
  match e with
  | EDelIng k => remove ("Ingress/" ++ k) last
  | EDelVS k => remove ("VirtualServer/" ++ k) last
  | EDelVSR k => remove ("VirtualServerRoute/" ++ k) last
  | EDelTS k => remove ("TransportServer/" ++ k) last
  | _ => match event_obj e with
         | Some (k, _) => match lookup k cl with
                          | Some p => if String.eqb (event_uid p) (event_uid e) then last else remove k last
                          | None => last end
         | None => last end
  end.

(* the validation error of the object being processed is reported in this very step *)
Definition error_reported (e : event) (ob : obs) : bool :=
  match event_obj e with
  | Some (k, true) =>
      let invalid := match e with EIng _ _ v | EVS _ _ v | EVSR _ _ v | ETS _ _ v => negb v | _ => false end in
      negb invalid ||
      existsb (fun c => String.eqb (rkey (c_res c)) k && c_err c) (ob_changes ob) ||
      existsb (fun p => String.eqb (p_obj p) k && p_is_error p) (ob_problems ob)
  | _ => true
  end.

(* returns (step, code, object index) of the first untruthful accumulated report; code 9 = validation error not reported *)
Fixpoint c05_run (cf : cfg) (o : objs) (cl : smap event) (last : smap report) (es : list event) (os : list obs) (i : Z) : Z * Z :=
  match es, os with
  | e :: er, ob :: orest =>
      let o' := apply_event o e in
      let cl' := cluster_apply cl e in
      let last' := fold_left (fun m kr => insert (fst kr) (snd kr) m) (reports_of_step_ev e (own_in_cluster cl') ob) (forget cl e last) in
      if negb (error_reported e ob) then (i, 9)
      else
        match filter_map (fun kv => let d := truthful cf o' ob last' (fst kv) (snd kv) in if d =? 0 then None else Some d) cl' with
        | d :: _ => (i, d)
        | [] => c05_run cf o' cl' last' er orest (i + 1)
        end
  | _, _ => (0, 0)
  end.

Definition c05_case (id : Z) (c : cfg) (es : list event) (os : list obs) (final : obs)
           (alts : list (list event * obs)) : list Z :=
  let '(mask, first, s) := compare_run c init es os 1 0 0 in
  let '(step_, code) := c05_run c objs0 [] [] es os 1 in
  [id; mask; first; step_; code; Z.of_nat (List.length es)].

(* debugging aid: the objects whose last report is not truthful at the first failing step *)
Fixpoint c05_who (cf : cfg) (o : objs) (cl : smap event) (last : smap report) (es : list event) (os : list obs) : list (string * Z) :=
  match es, os with
  | e :: er, ob :: orest =>
      let o' := apply_event o e in
      let cl' := cluster_apply cl e in
      let last' := fold_left (fun m kr => insert (fst kr) (snd kr) m) (reports_of_step_ev e (own_in_cluster cl') ob) (forget cl e last) in
      match filter_map (fun kv => let d := truthful cf o' ob last' (fst kv) (snd kv) in if d =? 0 then None else Some (fst kv, d)) cl' with
      | [] => c05_who cf o' cl' last' er orest
      | l => l
      end
  | _, _ => []
  end.


(* ---- C05 / C16 at the level of the controller: the Events actually recorded ---- *)

Definition listener_dec : forall a b : listener, {a = b} + {a <> b}.
Proof. decide equality; auto using string_dec, Z.eq_dec, bool_dec. Defined.
Definition event_dec : forall a b : event, {a = b} + {a <> b}.
Proof. decide equality; auto using string_dec, bool_dec, ingress_dec, vserver_dec, vsroute_dec, tserver_dec, (list_eq_dec listener_dec). Defined.

(* the informer handler may drop an update only if nothing the controller reads has changed: the event is
   identical (object as projected, class verdict, validation verdict) to the last one about that object *)
Definition delivery_code (cl : smap event) (e : event) (probe : Z) : Z :=   (* 0 fine; 1 class-relevant drop; 2 other drop *)
  if negb (probe =? 2) then 0
  else match event_obj e with
       | Some (k, cls) =>
           match lookup k cl with
           | Some p => if eqb_of event_dec p e then 0
                       else match event_obj p with
                            | Some (_, pcls) => if Bool.eqb pcls cls then 2 else 1
                            | None => 2 end
           | None => 2       (* an add that was not delivered *)
           end
       | None => 2           (* a delete of an existing object that was not delivered *)
       end.

(* class of a recorded Event: 1 success, 2 success with warning, 3 rejection, 4 problem *)
Definition report_code (r : report) : Z :=
  match r with
  | ROk false => 1 | ROk true => 2 | RRejected => 3
  | RProblem _ reason => if String.eqb reason "Rejected" then 3 else 4
  end.

Definition report_of_code (z : Z) : report :=
  if z =? 1 then ROk false else if z =? 2 then ROk true else if z =? 3 then RRejected else RProblem false "problem".

Fixpoint zinsert (x : string * Z) (l : list (string * Z)) : list (string * Z) :=
  match l with
  | [] => [x]
  | y :: r => if String.ltb (fst x) (fst y) || (String.eqb (fst x) (fst y) && (snd x <=? snd y)) then x :: l else y :: zinsert x r
  end.
Definition zsort (l : list (string * Z)) : list (string * Z) := fold_right zinsert [] l.

Definition evs_dec := list_eq_dec (pair_dec string_dec Z.eq_dec).

(* real Events of one sync (GlobalConfiguration's own events removed by the harness), as (object, class) *)
Record ctl := mkCtl { ct_events : list (string * Z); ct_writes : list string; ct_obs : obs;
                      ct_verr_expected : bool;   (* the object of this sync is of our class and fails validation *)
                      ct_verr_reported : bool;   (* an Event about it carried the text of the validation error *)
                      ct_probe : Z;              (* the real informer handler on this event: 0 not probed, 1 passed on to the queue, 2 dropped *)
                      ct_files : list string;    (* per-resource configuration files that exist after the sync *)
                      ct_pt : list (string * string); (* tls-passthrough-hosts.conf after the sync: host -> unix socket *)
                      ct_status : list (string * Z)   (* status.reason written by the sync (VS, VSR, TS), coded like the Events *) }.

(* C10 at the controller level: one file per served resource, under the name the Configurator gives it *)
Definition file_of (r : resource) : string :=
  let m := res_meta r in
  match r with
  | RIng _ => "conf.d/" ++ m_ns m ++ "-" ++ m_name m
  | RVS _ => "conf.d/vs_" ++ m_ns m ++ "_" ++ m_name m
  | RTS _ => "stream-conf.d/ts_" ++ m_ns m ++ "_" ++ m_name m
  end.

Definition files_ok (ob : obs) (files : list string) : bool :=
  eqb_of (list_eq_dec string_dec) (ssort (map file_of (ob_res ob))) (ssort files).

(* the same against the specification: the files must be those of the resources that the object set the history
   determines makes active (the model state; its hosts are proved to be the least claimants), not merely those of
   the resources the implementation believes it serves *)
Fixpoint files_spec_run (c : cfg) (s : state) (es : list event) (cs : list ctl) (i : Z) : Z :=
  match es, cs with
  | e :: er, ct :: cr =>
      let s' := step_state c s e in
      if eqb_of (list_eq_dec string_dec) (ssort (map (fun kv => file_of (snd kv)) (get_resources s'))) (ssort (ct_files ct))
      then files_spec_run c s' er cr (i + 1) else i
  | _, _ => 0
  end.

(* the TLS passthrough host map routes exactly the hosts of the TLS passthrough TransportServers being served,
   each to the socket of its TransportServer *)
Definition pt_expected (ob : obs) : list (string * string) :=
  filter_map (fun r => match r with
                       | RTS tc => let t := tc_ts tc in
                                   if is_passthrough t && negb (String.eqb (t_host t) "")
                                   then Some (t_host t, "unix:/var/lib/nginx/passthrough-" ++ m_ns (t_meta t) ++ "_" ++ m_name (t_meta t) ++ ".sock")
                                   else None
                       | _ => None end) (ob_res ob).

Definition pt_ok (ob : obs) (pt : list (string * string)) : bool :=
  subset_locs (pt_expected ob) pt && subset_locs pt (pt_expected ob).

Fixpoint pt_run (cs : list ctl) (i : Z) : Z :=
  match cs with
  | [] => 0
  | ct :: r => if pt_ok (ct_obs ct) (ct_pt ct) then pt_run r (i + 1) else i
  end.

Fixpoint files_run (cs : list ctl) (i : Z) : Z :=
  match cs with
  | [] => 0
  | ct :: r => if files_ok (ct_obs ct) (ct_files ct) then files_run r (i + 1) else i
  end.

(* returns (first step where the model's reports differ from the recorded Events,
            first step whose accumulated real Events are not truthful, its code,
            first step at which a foreign-class object received an Event or a status write) *)
Fixpoint ctl_run (cf : cfg) (o : objs) (cl : smap event) (last : smap report) (es : list event) (os : list obs) (cs : list ctl)
         (i : Z) (acc : Z * Z * Z * Z * (Z * Z)) : Z * Z * Z * Z * (Z * Z) :=
  match es, os, cs with
  | e :: er, ob :: orest, ct :: crest =>
      let '(dx, ds, dc, df, (dd, dk)) := acc in
      let o' := apply_event o e in
      let dcode := delivery_code cl e (ct_probe ct) in
      let cl' := cluster_apply cl e in
      (* success with and without warning are not distinguished here: the Configurator adds warnings of its
         own (missing Secret, ...) that the arbitration model does not know *)
      let merge := fun z : Z => if z =? 2 then 1 else z in
      let model := zsort (map (fun kr => (fst kr, merge (report_code (snd kr))))
                              (reports_of_step_ev e (own_in_cluster cl') ob +++ flat_map synthetic_vsr_reports (ob_changes ob))) in
      let real := zsort (map (fun kr => (fst kr, merge (snd kr))) (ct_events ct)) in
      let last' := fold_left (fun m kr => insert (fst kr) (report_of_code (snd kr)) m) (ct_events ct) (forget cl e last) in
      let bad := filter_map (fun kv => let d := truthful cf o' (ct_obs ct) last' (fst kv) (snd kv) in if d =? 0 then None else Some d) cl' in
      (* no object that is of a foreign class now (the one of this event or any other) is named by an Event or a status write *)
      let foreign := existsb (fun x => foreign_in_cluster cl' (fst x)) (ct_events ct) || existsb (foreign_in_cluster cl') (ct_writes ct) in
      ctl_run cf o' cl' last' er orest crest (i + 1)
              (if (dx =? 0) && negb (eqb_of evs_dec model real) then i else dx,
               if (ds =? 0) && (nonempty bad || (ct_verr_expected ct && negb (ct_verr_reported ct))) then i else ds,
               if (ds =? 0) && (nonempty bad || (ct_verr_expected ct && negb (ct_verr_reported ct)))
               then (if ct_verr_expected ct && negb (ct_verr_reported ct) then 9 else hd 0 bad) else dc,
               if (df =? 0) && foreign then i else df,
               (if (dd =? 0) && negb (dcode =? 0) then i else dd, if (dd =? 0) && negb (dcode =? 0) then dcode else dk))
  | _, _, _ => acc
  end.

(* the status channel: the status subresource of VirtualServers, VirtualServerRoutes and TransportServers is the
   most recent report the object itself carries.  The written statuses are accumulated per object the way the
   API server keeps them (the harness plays the watch: the informer store gets a new object with the written
   status) and must be truthful after every event, like the Events. *)
Fixpoint status_run (cf : cfg) (o : objs) (cl : smap event) (lasts : smap report) (es : list event) (cs : list ctl) (i : Z) : Z * Z :=
  match es, cs with
  | e :: er, ct :: crest =>
      let o' := apply_event o e in
      let cl' := cluster_apply cl e in
      let lasts' := fold_left (fun m kr => insert (fst kr) (report_of_code (snd kr)) m) (ct_status ct) (forget cl e lasts) in
      match filter_map (fun kv => match snd kv with
                                  | EVS _ _ _ | EVSR _ _ _ | ETS _ _ _ =>
                                      let d := truthful cf o' (ct_obs ct) lasts' (fst kv) (snd kv) in if d =? 0 then None else Some d
                                  | _ => None end) cl' with
      | d :: _ => (i, d)
      | [] => status_run cf o' cl' lasts' er crest (i + 1)
      end
  | _, _ => (0, 0)
  end.

(* acquiring leadership at the end of the history: status writes that name an object of a foreign class
   (the four arbitrated kinds by the cluster; Policies by the class they carry) *)
Definition leader_foreign (es : list event) (writes : list string) (pol_writes : list (string * string)) : Z :=
  let cl := fold_left cluster_apply es [] in
  Z.of_nat (List.length (filter (foreign_in_cluster cl) writes) +
            List.length (filter (fun kc => negb (has_class "nginx" false None (Some (snd kc)))) pol_writes)).

Definition ctl_case (id : Z) (c : cfg) (es : list event) (os : list obs) (final : obs)
           (alts : list (list event * obs)) (cs : list ctl) (lw : list string) (pw : list (string * string)) : list Z :=
  let '(dx, ds, dc, df, (dd, dk)) := ctl_run c objs0 [] [] es os cs 1 (0, 0, 0, 0, (0, 0)) in
  [id; dx; ds; dc; df; Z.of_nat (List.length es); dd; dk; leader_foreign es lw pw; files_run cs 1; pt_run cs 1;
   fst (status_run c objs0 [] [] es cs 1); snd (status_run c objs0 [] [] es cs 1); files_spec_run c init es cs 1].
