(* Lex/Parser.v -- block parser for NGINX configuration token lists.  NO PROOFS in this file.

   INTERFACE
     directive := Dir (name : string) (args : list string) (body : option (list directive))
                  body = None: simple directive ended by ';'    body = Some ds: block directive
     parse     : list token -> option (list directive)
                  None if: ';' or '{' without a preceding word (nginx: unexpected ';'),
                  '}' while words are pending (directive not terminated), '}' without an open
                  block, end of input inside a block or with pending words.
                  One pass, structural recursion on the token list, explicit stack (no fuel).
     flatten   : list directive -> list token        (inverse of parse, see ParserProofs)
     parse_conf : string -> option (list directive)  (lex then parse)
     sdirective := SDir (name : string) (arity : nat) (body : option (list sdirective))
     skeleton  : list directive -> list sdirective   (erase argument contents; keep names, arity,
                                                      block structure)
     shape / shapes : the same with the names erased too (a function of the event list only:
                      LexerProofs.shape_events)
     dname dargs dbody, children
     all_dirs  : list directive -> list directive    every directive at any depth, pre-order
     find_all name ds                                every directive named [name] at any depth
     find_blocks name ds                             bodies of every block named [name], any depth
     find_top name ds / blocks_top name ds           the same, top level of ds only
     dir_count ds                                    number of directives at any depth
   Tree walks use fuel = number of tokens/size bound supplied by the caller where needed; the
   walkers below are structural (nested fix). *)
From Coq Require Import List String Ascii Bool Arith.
From NIC Require Import Lex.Lexer.
Import ListNotations.
Open Scope string_scope.
Open Scope list_scope.

Inductive directive := Dir (name : string) (args : list string) (body : option (list directive)).

Definition dname (d : directive) := match d with Dir n _ _ => n end.
Definition dargs (d : directive) := match d with Dir _ a _ => a end.
Definition dbody (d : directive) := match d with Dir _ _ b => b end.
Definition children (d : directive) : list directive :=
  match dbody d with Some ds => ds | None => [] end.

(* a frame of the stack: header words of the open block and its already parsed elder siblings
   (reversed) *)
Definition frame := (string * list string * list directive)%type.

(* cur = words of the directive being read, reversed; done = finished siblings, reversed *)
Fixpoint parse_go (ts : list token) (cur : list string) (done : list directive)
         (stack : list frame) : option (list directive) :=
  match ts with
  | [] => match cur, stack with [], [] => Some (rev done) | _, _ => None end
  | TWord w :: r => parse_go r (w :: cur) done stack
  | TSemi :: r =>
      match rev cur with
      | [] => None
      | n :: a => parse_go r [] (Dir n a None :: done) stack
      end
  | TOpen :: r =>
      match rev cur with
      | [] => None
      | n :: a => parse_go r [] [] ((n, a, done) :: stack)
      end
  | TClose :: r =>
      match cur, stack with
      | [], (n, a, pdone) :: st => parse_go r [] (Dir n a (Some (rev done)) :: pdone) st
      | _, _ => None
      end
  end.

Definition parse (ts : list token) : option (list directive) := parse_go ts [] [] [].

Definition parse_conf (s : string) : option (list directive) :=
  match lex s with Some ts => parse ts | None => None end.

Fixpoint flatten_d (d : directive) : list token :=
  match d with
  | Dir n a b =>
      TWord n :: map TWord a ++
      match b with
      | None => [TSemi]
      | Some ds =>
          TOpen :: (fix fl (l : list directive) : list token :=
                      match l with [] => [] | x :: r => flatten_d x ++ fl r end) ds ++ [TClose]
      end
  end.

Fixpoint flatten (ds : list directive) : list token :=
  match ds with [] => [] | d :: r => flatten_d d ++ flatten r end.

(* ---------------------------------------------------------------- skeletons *)

Inductive sdirective := SDir (name : string) (arity : nat) (body : option (list sdirective)).

Fixpoint skeleton_d (d : directive) : sdirective :=
  match d with
  | Dir n a b =>
      SDir n (List.length a)
           (match b with
            | None => None
            | Some ds => Some ((fix sk (l : list directive) : list sdirective :=
                                  match l with [] => [] | x :: r => skeleton_d x :: sk r end) ds)
            end)
  end.

Fixpoint skeleton (ds : list directive) : list sdirective :=
  match ds with [] => [] | d :: r => skeleton_d d :: skeleton r end.

(* names erased as well: what the event list alone determines *)
Inductive shape := Sh (nwords : nat) (body : option (list shape)).

Fixpoint shape_d (d : directive) : shape :=
  match d with
  | Dir n a b =>
      Sh (S (List.length a))
         (match b with
          | None => None
          | Some ds => Some ((fix sh (l : list directive) : list shape :=
                                match l with [] => [] | x :: r => shape_d x :: sh r end) ds)
          end)
  end.

Fixpoint shapes (ds : list directive) : list shape :=
  match ds with [] => [] | d :: r => shape_d d :: shapes r end.

(* the shape forest of an event list: parse the events as tokens with empty words *)
Definition token_of_ev (e : ev) : list token :=
  match e with TokEnd => [TWord ""] | Semi => [TSemi] | Open => [TOpen] | Close => [TClose] | Err => [] end.

Definition shapes_of_events (evs : list ev) : option (list shape) :=
  if no_err evs then option_map shapes (parse (flat_map token_of_ev evs)) else None.

(* ---------------------------------------------------------------- walking the tree *)

Fixpoint all_dirs_d (d : directive) : list directive :=
  d :: match d with
       | Dir _ _ None => []
       | Dir _ _ (Some ds) =>
           (fix go (l : list directive) : list directive :=
              match l with [] => [] | x :: r => all_dirs_d x ++ go r end) ds
       end.

Fixpoint all_dirs (ds : list directive) : list directive :=
  match ds with [] => [] | d :: r => all_dirs_d d ++ all_dirs r end.

Definition find_top (name : string) (ds : list directive) : list directive :=
  filter (fun d => String.eqb (dname d) name) ds.

Definition find_all (name : string) (ds : list directive) : list directive :=
  find_top name (all_dirs ds).

Definition blocks_top (name : string) (ds : list directive) : list (list directive) :=
  flat_map (fun d => match d with
                     | Dir n _ (Some b) => if String.eqb n name then [b] else []
                     | _ => []
                     end) ds.

Definition find_blocks (name : string) (ds : list directive) : list (list directive) :=
  blocks_top name (all_dirs ds).

Definition dir_count (ds : list directive) : nat := List.length (all_dirs ds).
