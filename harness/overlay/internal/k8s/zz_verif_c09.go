//go:build verif

package k8s

// Add-only hook for property C09: a LoadBalancerController over stores the harness fills,
// assembled the way controller_test.go assembles one, so that the harness can go the whole way
// createVirtualServerEx (endpoint keys computed by the producer) -> GenerateVirtualServerConfig
// (keys computed again by the consumer) -> template.

import (
	"fmt"
	"io"
	"log/slog"

	"github.com/nginx/kubernetes-ingress/internal/configs"
	"github.com/nginx/kubernetes-ingress/internal/k8s/secrets"
	conf_v1 "github.com/nginx/kubernetes-ingress/pkg/apis/configuration/v1"
	"github.com/nginx/kubernetes-ingress/pkg/apis/configuration/validation"
	api_v1 "k8s.io/api/core/v1"
	discovery_v1 "k8s.io/api/discovery/v1"
	networking "k8s.io/api/networking/v1"
	"k8s.io/client-go/tools/cache"
)

// VerifC09 is a controller over stores the harness populates.
type VerifC09 struct {
	lbc    *LoadBalancerController
	svcs   cache.Store
	slices cache.Store
	pods   cache.Indexer
}

// NewVerifC09 builds the controller.
func NewVerifC09(isPlus bool) *VerifC09 { return newVerifC09(isPlus, false) }

// NewVerifC09CertManager builds the controller with cert-manager support on (challenge Ingresses
// are converted into routes of the VirtualServer that owns their host).
func NewVerifC09CertManager(isPlus bool) *VerifC09 { return newVerifC09(isPlus, true) }

func newVerifC09(isPlus, certManager bool) *VerifC09 {
	v := &VerifC09{
		svcs:   cache.NewStore(cache.MetaNamespaceKeyFunc),
		slices: cache.NewStore(cache.MetaNamespaceKeyFunc),
		pods:   cache.NewIndexer(cache.MetaNamespaceKeyFunc, cache.Indexers{cache.NamespaceIndex: cache.MetaNamespaceIndexFunc}),
	}
	nsi := map[string]*namespacedInformer{
		"": {
			svcLister:           v.svcs,
			endpointSliceLister: storeToEndpointSliceLister{Store: v.slices},
			podLister:           indexerToPodLister{Indexer: v.pods},
			policyLister:        cache.NewStore(cache.MetaNamespaceKeyFunc),
		},
	}
	lbc := &LoadBalancerController{
		ingressClass:              "nginx",
		isNginxPlus:               isPlus,
		areCustomResourcesEnabled: true,
		namespacedInformers:       nsi,
		secretStore:               secrets.NewEmptyFakeSecretsStore(),
		Logger:                    slog.New(slog.NewTextHandler(io.Discard, nil)),
	}
	lbc.configuration = NewConfiguration(
		lbc.HasCorrectIngressClass, isPlus, false, false, false,
		validation.NewVirtualServerValidator(validation.IsPlus(isPlus)),
		validation.NewGlobalConfigurationValidator(map[int]bool{80: true, 443: true}),
		validation.NewTransportServerValidator(true, true, isPlus),
		true, true, certManager, false,
	)
	v.lbc = lbc
	return v
}

func (v *VerifC09) AddService(s *api_v1.Service) error           { return v.svcs.Add(s) }
func (v *VerifC09) AddSlice(s *discovery_v1.EndpointSlice) error { return v.slices.Add(s) }
func (v *VerifC09) AddPod(p *api_v1.Pod) error                   { return v.pods.Add(p) }

// CreateVirtualServerEx is the real createVirtualServerEx.
func (v *VerifC09) CreateVirtualServerEx(vs *conf_v1.VirtualServer, vsrs []*conf_v1.VirtualServerRoute) *configs.VirtualServerEx {
	return v.lbc.createVirtualServerEx(vs, vsrs)
}

// CreateIngressEx is the real createIngressEx.
func (v *VerifC09) CreateIngressEx(ing *networking.Ingress, validHosts map[string]bool) *configs.IngressEx {
	return v.lbc.createIngressEx(ing, validHosts, nil)
}

// CreateTransportServerEx is the real createTransportServerEx.
func (v *VerifC09) CreateTransportServerEx(ts *conf_v1.TransportServer, listenerPort int) *configs.TransportServerEx {
	return v.lbc.createTransportServerEx(ts, listenerPort, "", "")
}

func verifC09Changes(changes []ResourceChange, problems []ConfigurationProblem) []string {
	var out []string
	for _, ch := range changes {
		out = append(out, fmt.Sprintf("change op=%d %s %s", ch.Op, ch.Resource.GetKeyWithKind(), ch.Error))
	}
	for _, p := range problems {
		out = append(out, fmt.Sprintf("problem %s: %s", p.Reason, p.Message))
	}
	return out
}

// DeliverIngress / DeliverVirtualServer hand an object to the real Configuration (an add, an update
// or a resync event) and return what it reports.
func (v *VerifC09) DeliverIngress(ing *networking.Ingress) []string {
	return verifC09Changes(v.lbc.configuration.AddOrUpdateIngress(ing))
}

func (v *VerifC09) DeliverVirtualServer(vs *conf_v1.VirtualServer) []string {
	return verifC09Changes(v.lbc.configuration.AddOrUpdateVirtualServer(vs))
}

// VirtualServerExes is what the controller hands to the Configurator for the VirtualServers the
// Configuration holds: createVirtualServerEx on every VirtualServerConfiguration, in GetResources order.
func (v *VerifC09) VirtualServerExes() []*configs.VirtualServerEx {
	var out []*configs.VirtualServerEx
	for _, r := range v.lbc.configuration.GetResources() {
		if vsc, ok := r.(*VirtualServerConfiguration); ok {
			out = append(out, v.lbc.createVirtualServerEx(vsc.VirtualServer, vsc.VirtualServerRoutes))
		}
	}
	return out
}
