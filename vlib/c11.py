"""C11 -- secret material on disk is always the latest valid version, and vanishes with it."""
import os, json
from . import common as C


def cq_ver(o):
    return "(mkver %s %s %s %s %s)" % (C.cq_str(o.get("type", "")), C.cq_bool(o["valid"]), C.cq_str(o.get("main", "")),
                                       C.cq_str(o.get("crt", "")), C.cq_str(o.get("crl", "")))


def cq_op(o):
    if o["op"] == "upsert":
        return "Upsert %s %s %s" % (C.cq_str(o.get("ns", "")), C.cq_str(o.get("name", "")), cq_ver(o))
    if o["op"] == "delete":
        return "Delete %s" % C.cq_str(o.get("key", ""))
    if o["op"] == "get":
        return "Get %s" % C.cq_str(o.get("key", ""))
    if o["op"] == "force":
        return "ForcePath %s %s" % (C.cq_str(o.get("ns", "")), C.cq_str(o.get("name", "")))
    raise ValueError(o["op"])


def cq_cev(o):
    if o["op"] == "cput":
        return "XE (CPut %s %s %s)" % (C.cq_str(o.get("ns", "")), C.cq_str(o.get("name", "")), cq_ver(o))
    if o["op"] == "cdel":
        return "XE (CDel %s %s)" % (C.cq_str(o.get("ns", "")), C.cq_str(o.get("name", "")))
    if o["op"] == "drain":
        return "XE CDrain"
    if o["op"] == "get":
        return "XE (CGet %s)" % C.cq_str(o.get("key", ""))
    if o["op"] == "start":
        return "XE CStart"
    if o["op"] == "unwatch":
        return "XE (CUnwatch %s)" % C.cq_str(o.get("ns", ""))
    if o["op"] == "watch":
        return "XE (CWatch %s)" % C.cq_str(o.get("ns", ""))
    if o["op"] == "restart":
        return "XRestart"
    raise ValueError(o["op"])


def is_ctl(c):
    return "ctl" in c.get("class", "")


def cq_step(s):
    ls = C.cq_list(["(%s, (%s, %s))" % (C.cq_str(f["name"]), C.cq_z(f["mode"]), C.cq_str(f["hash"])) for f in s["ls"]])
    return "(%s, %s, %s)" % (ls, C.cq_str(s.get("path", "")), C.cq_bool(s.get("err", False)))


def case_to_coq(c):
    if c["class"] == "consts":
        o = c["obs"]
        return "consts_case %s %s %s" % (C.cq_list([C.cq_str(t) for t in o["types"]]), C.cq_list([C.cq_z(m) for m in o["modes"]]),
                                         C.cq_list([C.cq_str(k) for k in o["keys"]]))
    if is_ctl(c):
        return "ctl_case %d %s %s" % (c["id"], C.cq_list([cq_cev(o) for o in c["ops"]]),
                                      C.cq_list(["(%s, %s)" % (cq_step(s), C.cq_list([C.cq_str(k) for k in s.get("synced") or []]))
                                                 for s in c["obs"]["steps"]]))
    return "hist_case %d %s %s" % (c["id"], C.cq_list([cq_op(o) for o in c["ops"]]),
                                   C.cq_list([cq_step(s) for s in c["obs"]["steps"]]))


def broken(c):
    """cases the harness could not run, or where the code under test panicked"""
    o = c.get("obs")
    if isinstance(o, dict) and "error" in o:
        return "error"
    if isinstance(o, dict) and any(s.get("panic") for s in o.get("steps", [])):
        return "panic"
    return None


def evaluate(run, cases, tag):
    cases = [c for c in cases if not broken(c)]
    if not cases:
        return []
    body = "From NIC Require Import Base.SMap Secrets.Model Secrets.Spec Secrets.Cases.\n"
    body += "Definition results : list (list Z) := Eval vm_compute in\n  [" + ";\n   ".join(case_to_coq(c) for c in cases) + "].\n"
    body += "Print results.\n"
    path = os.path.join(C.WORK, "cases", "C11_%s.v" % tag)
    C.write_cases_v(path, body)
    rc, out = C.coqc(path)
    res = C.parse_z_lists(out, "results")
    if rc != 0 or res is None or len(res) != len(cases):
        raise C.TieBroken("coqc could not evaluate the C11 cases file (%s): %s" % (path, out[-1500:]))
    return res


FILE_OF = {0: "ns-name", 1: "ns-name-ca.crt", 2: "ns-name-ca.crl", 9: "?"}


def signature(c, row):
    """what kind of thing failed on which input class (known findings are matched on this)"""
    _, _, _, _, _, _, step, kind, coll, retyped, hadca, fidx, direction = row
    if kind == 1:
        return {"kind": "foreign-file"}, "a file in the secrets directory that no Secret of the history derives"
    if kind == 3:
        return {"kind": "reference-error"}, "a reference to an invalid/absent Secret does not report the error (or a valid one reports an error)"
    if kind == 4:
        return {"kind": "harness-shape"}, "observations and operations differ in number"
    if kind == 6:
        return ({"kind": "reference-path", "family": "controller" if is_ctl(c) else "store"},
                "a reference to a Secret names a file that is not derived from that Secret")
    if kind == 5:
        return ({"kind": "restart-leftover", "dir": "secrets"},
                "a file written by the previous process is still in the secrets directory after the restart although in the new process "
                "the Secret is absent / invalid / not asked for, or holds the content of an older version")
    if coll == 1:
        return {"kind": "collision", "scheme": "secret_file_ns_name"}, "two Secret keys whose ns-name concatenations coincide share a file"
    if coll == 2:
        return {"kind": "collision", "scheme": "secret_file_ca_suffix"}, "a CA Secret's ns-name-ca.crt/.crl file is also the ns-name file of another Secret"
    if retyped:
        return {"kind": "stale-file", "cause": "type-change"}, "the Secret changed its type while materialised; the file of the old type stays"
    if hadca and direction == 1 and fidx in (1, 2):
        return {"kind": "stale-file", "cause": "ca-files-not-deleted"}, "CA files stay after the Secret became invalid / was deleted"
    return ({"kind": "spec", "family": "controller" if is_ctl(c) else "store", "file": FILE_OF.get(fidx, "?"), "direction": {1: "present-but-not-expected", 2: "missing-or-wrong-content"}.get(direction, "?")},
            "the files derived from a Secret are not exactly the derivation of its current valid, asked-for version")


def special_check(run, c):
    """the files of the special Secrets (kept apart from the listing the model sees): `wildcard` / `default` hold the TLS derivation
    of some valid version of the configured Secret that existed so far, and once written they stay (retained by design)"""
    want = {"wildcard": c.get("wildcard"), "default": c.get("default")}
    ok_hashes = {"wildcard": set(), "default": set()}
    present = set()
    for i, (o, s) in enumerate(zip(c["ops"], c["obs"]["steps"])):
        if o["op"] == "cput" and o.get("valid") and o.get("type") == "kubernetes.io/tls":
            for f, key in want.items():
                if key == o["ns"] + "/" + o["name"]:
                    ok_hashes[f].add(o["main"])
        now = {f["name"]: f for f in s.get("special") or []}
        bad = None
        for f in present:
            if f not in now and o["op"] != "restart":
                bad = "special file %s disappeared" % f
        for f, x in now.items():
            if x["hash"] not in ok_hashes.get(f, set()) or x["mode"] != 0o600:
                bad = "special file %s does not hold a valid version of %s (mode %o)" % (f, want.get(f), x["mode"])
        present = set(now)
        if bad:
            run.failing({"kind": "special-file"}, [c], "%s at step %d of case %d" % (bad, i, c["id"]),
                        theorem="special Secrets (default / wildcard): written by handleSpecialSecretUpdate, retained")
            return


def strip(c):
    """canonical input of a case: the operations without the oracles"""
    return [c.get("wildcard"), c.get("default")] + [[o["op"], o.get("ns"), o.get("name"), o.get("key"), o.get("type"), o.get("payload"),
                                                      o.get("salt"), o.get("ann"), o.get("mns"), o.get("uid")] for o in c.get("ops", [])]


def judge(run, cases, res, st):
    byid = {c["id"]: c for c in cases}
    for c in cases:
        b = broken(c)
        if b == "error":
            run.failing({"kind": "harness-case-error"}, [c], "the harness could not run case %d: %s" % (c["id"], c["obs"]["error"][:300]),
                        theorem="correspondence harness c11", found_input=False)
        elif b == "panic":
            idx = [i for i, s in enumerate(c["obs"]["steps"]) if s.get("panic")][0]
            p = c["obs"]["steps"][idx]["panic"]
            if (is_ctl(c) and c["ops"][idx]["op"] == "drain" and "nil pointer" in p and
                    any(o["op"] == "unwatch" for o in c["ops"][:idx])):
                run.failing({"kind": "panic", "cause": "secret-task-after-namespace-unwatch"}, [c],
                            "the worker panicked on a Secret task whose namespace stopped being watched (case %d)" % c["id"],
                            theorem="Secrets.Cases (no panic)")
                continue
            run.failing({"kind": "panic", "class": c["class"]}, [c], "the code under test panicked on case %d: %s" % (c["id"], p[:300]),
                        theorem="Secrets.Cases (no panic)")
    for c in cases:
        for o in c.get("ops", []):
            if o["op"] in ("upsert", "cput") and o["valid"] != o.get("want", o["valid"]):
                run.failing({"kind": "validator-verdict", "type": o.get("type", ""), "payload": o.get("payload", "")}, [c],
                            "secrets.ValidateSecret says %s for a %s Secret with payload '%s' built to be %s (case %d)"
                            % ("valid" if o["valid"] else "invalid", o.get("type", ""), o.get("payload", ""),
                               "valid" if o.get("want") else "invalid", c["id"]),
                            theorem="validity oracle of Secrets.Model (vvalid) against the payload catalogue of harness c11")
    for c in cases:
        if is_ctl(c) and (c.get("wildcard") or c.get("default")) and not broken(c):
            special_check(run, c)
    for row in res:
        cid, agreeA, spec, nontriv, changes, agreeB = row[:6]
        c = byid[cid]
        if c["class"] == "consts":
            run.add_obligation(bool(agreeA), "constants copied into Secrets/Model.v equal those of /repo", json.dumps(c["obs"]))
            continue
        run.count_case(strip(c), bool(nontriv))
        run.cov["traces_validated_against_impl"] += 1
        st["ops"] += len(c["ops"])
        st["by_class"][c["class"]] = st["by_class"].get(c["class"], 0) + 1
        st["dir_changes"] += changes
        if not agreeA:
            st["disagreeA"].append(c)
        if not agreeB:
            st["disagreeB"].append(c)
        if not spec:
            sig, what = signature(c, row)
            st["spec_failed_ids"].add(cid)
            st["spec_false"][json.dumps(sig, sort_keys=True)] = st["spec_false"].get(json.dumps(sig, sort_keys=True), 0) + 1
            run.failing(sig, [c], "C11 fails on the implementation's own directory listing at step %d of case %d (class %s): %s"
                        % (row[6], cid, c["class"], what), theorem=("controller family: current cluster object after lbc.sync vs " if is_ctl(c) else "") + "Secrets.Spec.listing_ok / get_err_expected (decidable form of C11_inv, C11_materialised, C11_get_reports_error)")


TRUSTED = [
    "Rocq 8.16.1 kernel incl. vm_compute (no native_compute); no axioms (Print Assumptions: closed)",
    "hand-written model coq/Secrets/Model.v of LocalSecretStore + Configurator.AddOrUpdateSecret/DeleteSecret + the Path overwrite in "
    "addOrUpdateIngress + LocalManager.CreateSecret/DeleteSecret, tied by the correspondence harness harness/overlay/internal/verifh/c11 "
    "(real store over real Configurator over real LocalManager on a temporary root; directory listing with modes and content hashes after every operation)",
    "controller family: hook harness/overlay/internal/k8s/zz_verif_c11.go (production constructor with fake clientsets, informers not started: the "
    "harness changes the Secret informer store and calls the handler the informer would call; tasks are taken off the queue before lbc.sync so that "
    "batch mode, which only postpones reloads, is not entered); model of handlers + queue + syncSecret: cstep/crun in Secrets/Model.v",
    "validity of a Secret version is an oracle: the verdict of the real secrets.ValidateSecret, obtained by the harness (crypto/tls, x509, pem are called, not modelled)",
    "expected derived bytes per version are computed by the harness itself (not through the Configurator) and compared as SHA-256 prefixes (64 bit)",
    "the filesystem (os.CreateTemp, Chmod, Rename, Remove) is called, not modelled; a crash between temp-file write and rename is not modelled",
]


def finish(run, st):
    # which variant of Configurator.DeleteSecret does the tree implement
    if not st["disagreeA"]:
        st["variant"] = "as-is (CA files are not removed by DeleteSecret)"
        bad = []
    elif not st["disagreeB"]:
        st["variant"] = "repaired (fixes/F34.diff: DeleteSecret removes the CA files too)"
        bad = []
    else:
        st["variant"] = "neither"
        bad = st["disagreeA"] if len(st["disagreeA"]) <= len(st["disagreeB"]) else st["disagreeB"]
    for c in bad:
        if c["id"] in st["spec_failed_ids"]:
            continue
        run.failing({"kind": "correspondence", "class": c["class"]}, [c],
                    "model and implementation disagree on case %d (class %s) although the specification holds on the implementation's listing"
                    % (c["id"], c["class"]),
                    theorem="correspondence Secrets.Model ~ store.go, configurator.go, manager.go", found_input=False)
    run.cov["model_variant_matched"] = st["variant"]
    run.cov["operations"] = st["ops"]
    run.cov["by_class"] = st["by_class"]
    run.cov["directory_changing_steps"] = st["dir_changes"]
    run.cov["spec_false_by_signature"] = st["spec_false"]
    run.cov["rule"] = ("histories of 6-27 operations (AddOrUpdateSecret 38%, GetSecret 36%, DeleteSecret 16%, Ingress with jwt-key/basic-auth-secret annotation "
                       "configured through the real Configurator 10% in the classes force/mixed) over 2-4 Secrets; types: all 7 supported ones, 6 unsupported; "
                       "payloads: 3 real ed25519 key pairs, mismatched pair, non-PEM, missing keys, wrong PEM block, bad DER, OIDC secrets with forbidden "
                       "characters, duplicate API keys, empty data; classes clean/force (dash-free namespaces, no CA), ca, collide (a-b/c vs a/b-c), casuffix "
                       "(x as CA vs x-ca.crt), retype, mixed (every Secret carries a UID; a quarter of the updates and every create after a delete carry a new one: "
                       "delete-less re-creation, as the same type, another type or invalid, before and after the file was requested), xns (Secrets of one name in several namespaces, mergeable Ingresses whose minion lives in "
                       "another namespace than the master and carries the basic-auth / JWT annotation: every reference must name a file derived from that "
                       "very Secret), plus fixed witness histories of the refutation theorems.  Every fourth history is of the controller "
                       "family (classes ctl, ctl-life, ctl-restart; in the latter two the history begins with an existing cluster -- referenced and "
                       "unreferenced, valid and invalid, supported and unsupported Secrets -- and the real preSyncSecrets; ctl-life lets namespaces lose the "
                       "watch label (real lbc.sync of the namespace task -> cleanupUnwatchedNamespacedResources) and get it back (real newNamespacedInformer, "
                       "Add events); ctl-special configures the first key as -wildcard-tls-secret (and often the second as "
                       "-default-server-tls-secret) so that special Secrets are also used as ordinary ones through the namespace-label life cycle (the files "
                       "`default` / `wildcard` are kept apart and checked for holding a valid version and being retained); ctl-restart lets the process restart over the surviving directory (new LocalManager, Configurator, store, controller)): cluster-level Secret events (create, update keeping the type, delete, delete-and-recreate with another "
                       "type / unsupported type / invalid payload) delivered to the real createSecretHandlers of a controller built by NewLoadBalancerController, "
                       "with the real work queue drained through the real lbc.sync at arbitrary points and lookups through lbc.secretStore; S compares the "
                       "directory with the object the cluster holds whenever no event is outstanding.  A case is distinct by its operations "
                       "(without oracles); it is non-trivial when some file appears in the secrets directory.")
    run.cov["trusted_base"] = TRUSTED
    run.assumptions += ["Kubernetes names contain no '/' (hypothesis of the theorems, enforced by the generator)",
                        "Secret.type is immutable while the object exists (hypothesis type_stable; histories violating it are generated and reported as F35)",
                        "special secrets written by other routes (default, wildcard, license.jwt, mgmt/*, dhparam.pem) are not part of the model: preSyncSecrets does not "
                        "touch them, they are written by main.go / handleSpecialSecretUpdate and deliberately retained on deletion and on invalid updates",
                        "a Secret task is never left queued when its namespace loses the watch label (that crashes the worker: finding F38, one fixed witness)",
                        "a namespace that is deleted (not merely unlabelled) has had its Secrets deleted first, as the namespace finalizer guarantees"]


def new_stats():
    return {"ops": 0, "by_class": {}, "dir_changes": 0, "disagreeA": [], "disagreeB": [], "spec_false": {}, "spec_failed_ids": set()}


def check(run):
    n = 900 if run.tier == "quick" else 12000
    run.proof_obligations()
    binary = C.go_build("c11")
    out = os.path.join(C.WORK, "cases", "c11_%s.jsonl" % run.tier)
    rc, log = C.run_harness(binary, ["-seed", str(run.seed), "-n", str(n), "-out", out, "-tier", run.tier], timeout=3000,
                            env={"VERIF_REPO": C.REPO})
    if rc != 0:
        raise C.TieBroken("c11 harness failed rc=%d: %s" % (rc, log[-1500:]))
    cases = C.read_jsonl(out)
    st = new_stats()
    shard = 400
    for k in range(0, len(cases), shard):
        part = cases[k:k + shard]
        judge(run, part, evaluate(run, part, "%s_%d" % (run.tier, k // shard)), st)
    for c in ([x for x in cases if x["class"] == "witness-force"][:1] + [x for x in cases if x["class"] == "clean"][:1] +
              [x for x in cases if x["class"] == "witness-ctl-recreated-unsupported"][:1]):
        run.sample(c)
    finish(run, st)


def replay(run, path):
    path = os.path.abspath(path)
    binary = C.go_build("c11")
    out = os.path.join(C.WORK, "cases", "c11_replay.jsonl")
    rc, log = C.run_harness(binary, ["-replay", path, "-out", out], timeout=600, env={"VERIF_REPO": C.REPO})
    if rc != 0:
        raise C.TieBroken("c11 harness failed on replay: %s" % log[-1500:])
    cases = C.read_jsonl(out)
    res = evaluate(run, cases, "replay")
    byid = {c["id"]: c for c in cases}
    for r in res:
        c = byid[r[0]]
        if c["class"] == "consts":
            continue
        print("replay case %d (class %s): model-agrees(as-is)=%d model-agrees(repaired)=%d spec=%d first-failing-step=%d verdict=%s"
              % (c["id"], c["class"], r[1], r[5], r[2], r[6], r[7:]))
        for i, (o, s) in enumerate(zip(c["ops"], c["obs"]["steps"])):
            key = o.get("key", "") if o["op"] in ("get", "delete", "drain") else o.get("ns", "") + "/" + o.get("name", "")
            print("  %2d %-6s %-24r %-22s %-14s %-13s -> path=%r err=%s ls=%s" % (
                i, o["op"] + (":" + o["ann"] if o.get("ann") else ""), key, o.get("type", ""), o.get("payload", ""),
                ("valid=%s" % o.get("valid")) if o["op"] in ("upsert", "cput") else
                ("synced=%s" % (s.get("synced") or [])) if o["op"] == "drain" else "", s.get("path"), s.get("err"),
                [(f["name"], oct(f["mode"]), f["hash"][:6]) for f in s["ls"]]))
    st = new_stats()
    judge(run, cases, res, st)
    finish(run, st)
