//go:build verif

// Harness for C06: with snippets DISABLED, every string-typed leaf (found by reflection) of every
// resource of a set of rich base fixtures is replaced by every payload of an adversarial corpus
// (alone, appended / prepended / inserted into the fixture's own valid value); the REAL validator
// decides; what it accepts is pushed through the REAL Configuration, create*Ex glue, Configurator
// and templates over a recording nginx.Manager.  Observable: the bytes handed to CreateConfig /
// CreateStreamConfig / CreateTLSPassthroughHostsConfig, together with the rendering of the same
// fixture where that leaf holds harmless text of the same shape (dangerous bytes replaced; the
// fixture's original value when the validator rejects that).  Rocq then compares the structural
// events of the two byte strings (coq/Tmpl/C06Cases.v).
package main

import (
	"bytes"
	"context"
	"crypto/sha1"
	"encoding/hex"
	"fmt"
	"io"
	"log/slog"
	"os"
	"path/filepath"
	"reflect"
	"regexp"
	"runtime"
	"runtime/pprof"
	"sort"
	"strings"
	"sync"

	networking "k8s.io/api/networking/v1"
	k8svalidation "k8s.io/apimachinery/pkg/util/validation"

	"github.com/nginx/kubernetes-ingress/internal/configs"
	"github.com/nginx/kubernetes-ingress/internal/configs/version1"
	"github.com/nginx/kubernetes-ingress/internal/configs/version2"
	"github.com/nginx/kubernetes-ingress/internal/k8s"
	nl "github.com/nginx/kubernetes-ingress/internal/logger"
	"github.com/nginx/kubernetes-ingress/internal/nginx"
	"github.com/nginx/kubernetes-ingress/internal/verifh/vh"
	conf_v1 "github.com/nginx/kubernetes-ingress/pkg/apis/configuration/v1"
	"github.com/nginx/kubernetes-ingress/pkg/apis/configuration/validation"
)

// ---------------------------------------------------------------- recording manager

type file struct {
	Name  string
	Bytes []byte
	lex   *lexSummary // summary of the Go transcription of the tokenizer, computed once
}

func lexOf(f *file) *lexSummary {
	if f.lex == nil {
		s := lexRun(f.Bytes)
		f.lex = &s
	}
	return f.lex
}

type recMgr struct {
	*nginx.FakeManager
	files []file
}

func (m *recMgr) put(name string, content []byte) {
	b := append([]byte(nil), content...)
	for i := range m.files {
		if m.files[i].Name == name {
			m.files[i].Bytes = b
			return
		}
	}
	m.files = append(m.files, file{Name: name, Bytes: b})
}
func (m *recMgr) CreateMainConfig(content []byte) bool { m.put("nginx.conf", content); return true }
func (m *recMgr) CreateConfig(name string, content []byte) bool {
	m.put("conf.d/"+name+".conf", content)
	return true
}
func (m *recMgr) CreateStreamConfig(name string, content []byte) bool {
	m.put("stream-conf.d/"+name+".conf", content)
	return true
}
func (m *recMgr) CreateTLSPassthroughHostsConfig(content []byte) bool {
	m.put("tls-passthrough-hosts.conf", content)
	return true
}

// ---------------------------------------------------------------- environment

type env struct {
	plus bool
	te1  *version1.TemplateExecutor
	te2  *version2.TemplateExecutor
	ctx  context.Context
	lg   *slog.Logger
}

func repoDir() string {
	if d := os.Getenv("VERIF_REPO"); d != "" {
		return d
	}
	return "/repo"
}

func newEnv(plus bool) (*env, error) {
	base := filepath.Join(repoDir(), "internal", "configs")
	main1, ing1, vs2, ts2 := "version1/nginx.tmpl", "version1/nginx.ingress.tmpl", "version2/nginx.virtualserver.tmpl", "version2/nginx.transportserver.tmpl"
	if plus {
		main1, ing1, vs2, ts2 = "version1/nginx-plus.tmpl", "version1/nginx-plus.ingress.tmpl", "version2/nginx-plus.virtualserver.tmpl", "version2/nginx-plus.transportserver.tmpl"
	}
	te1, err := version1.NewTemplateExecutor(filepath.Join(base, main1), filepath.Join(base, ing1))
	if err != nil {
		return nil, err
	}
	te2, err := version2.NewTemplateExecutor(filepath.Join(base, vs2), filepath.Join(base, ts2))
	if err != nil {
		return nil, err
	}
	lg := slog.New(slog.NewTextHandler(io.Discard, &slog.HandlerOptions{Level: slog.Level(100)}))
	return &env{plus: plus, te1: te1, te2: te2, lg: lg, ctx: nl.ContextWithLogger(context.Background(), lg)}, nil
}

func (e *env) opts(w *World, cnf *configs.Configurator) k8s.VerifC06Opts {
	return k8s.VerifC06Opts{IsPlus: w.Plus, TLSPassthrough: w.TLSPass, EnableOIDC: w.Plus, CertManager: true, ExternalDNS: true,
		IngressClass: "nginx", Configurator: cnf, Logger: e.lg}
}

// Render is what one run of a world on the real code produced.
type Render struct {
	Structs  []any // template data structs (only when asked for)
	Files    []file
	Attached []string
	Errors   []string
	Problems int
	Warnings int
	Panic    string
}

func deepCopy(v any) any {
	switch x := v.(type) {
	case *networking.Ingress:
		return x.DeepCopy()
	case *conf_v1.VirtualServer:
		return x.DeepCopy()
	case *conf_v1.VirtualServerRoute:
		return x.DeepCopy()
	case *conf_v1.TransportServer:
		return x.DeepCopy()
	case *conf_v1.Policy:
		return x.DeepCopy()
	}
	panic("deepCopy: unknown type")
}

func firstLine(s string) string {
	if i := strings.IndexByte(s, '\n'); i >= 0 {
		s = s[:i]
	}
	if len(s) > 200 {
		s = s[:200]
	}
	return s
}

func (e *env) runWorld(w *World) (r Render) { return e.runWorldS(w, false) }

func (e *env) runWorldS(w *World, structs bool) (r Render) { return e.runWorldH(w, structs, nil) }

// runWorldH: after (if any) continues the history on the live controller once the objects of the world are applied
func (e *env) runWorldH(w *World, structs bool, after func(v *k8s.VerifC06)) (r Render) {
	defer func() {
		if p := recover(); p != nil {
			r.Panic = fmt.Sprint(p)
		}
	}()
	mgr := &recMgr{FakeManager: nginx.NewFakeManager("/etc/nginx")}
	ver := "nginx version: nginx/1.27.2"
	if w.Plus {
		ver = "nginx version: nginx/1.27.2 (nginx-plus-r33)"
	}
	cfg := configs.NewDefaultConfigParams(e.ctx, w.Plus)
	cfg.HTTP2 = w.HTTP2
	static := &configs.StaticConfigParams{
		HealthStatus: true, HealthStatusURI: "/nginx-health", NginxStatus: true, NginxStatusAllowCIDRs: []string{"127.0.0.1"},
		NginxStatusPort: 8080, DefaultHTTPListenerPort: 80, DefaultHTTPSListenerPort: 443,
		TLSPassthrough: w.TLSPass, TLSPassthroughPort: 443, EnableSnippets: false, EnableOIDC: w.Plus, EnableCertManager: true,
		StaticSSLPath: "/etc/nginx/secrets", NginxVersion: nginx.NewVersion(ver),
	}
	cnf := configs.NewConfigurator(configs.ConfiguratorParams{
		NginxManager: mgr, StaticCfgParams: static, Config: cfg, MGMTCfgParams: configs.NewDefaultMGMTConfigParams(e.ctx),
		TemplateExecutor: e.te1, TemplateExecutorV2: e.te2, IsPlus: w.Plus, NginxVersion: nginx.NewVersion(ver),
	})
	v := k8s.NewVerifC06(e.opts(w, cnf))
	for _, s := range w.Svcs {
		v.AddService(s)
	}
	for _, s := range w.Slices {
		v.AddEndpointSlice(s)
	}
	for _, s := range w.Secrets {
		v.AddSecret(s.DeepCopy())
	}
	note := func(chs []k8s.VerifC06Change, problems int) {
		r.Problems += problems
		for _, c := range chs {
			r.Warnings += c.Warnings
			if c.Err != "" {
				r.Errors = append(r.Errors, c.Op+" "+c.Kind+" "+c.Key+": "+firstLine(c.Err))
			}
		}
	}
	if w.GC != nil {
		chs, pr, err := v.SetGlobalConfiguration(w.GC.DeepCopy())
		if err != nil {
			r.Errors = append(r.Errors, "gc: "+firstLine(err.Error()))
		}
		note(chs, pr)
	}
	// policies and VirtualServerRoutes first (they are looked up when the referrer is applied),
	// then minions before masters does not matter: the Configuration re-evaluates on each add
	for _, o := range w.Objs {
		if o.Kind == "policy" {
			v.AddPolicy(deepCopy(o.Val).(*conf_v1.Policy))
		}
	}
	for _, o := range w.Objs {
		if o.Kind == "vsr" {
			note(v.AddVirtualServerRoute(deepCopy(o.Val).(*conf_v1.VirtualServerRoute)))
		}
	}
	for _, o := range w.Objs {
		switch x := deepCopy(o.Val).(type) {
		case *networking.Ingress:
			note(v.AddIngress(x))
		case *conf_v1.VirtualServer:
			note(v.AddVirtualServer(x))
		case *conf_v1.TransportServer:
			note(v.AddTransportServer(x))
		}
	}
	if after != nil {
		after(v)
	}
	r.Attached = v.Attached()
	if structs {
		r.Structs = cnf.VerifC06ConfigStructs()
	}
	sort.Strings(r.Attached)
	sort.Strings(r.Errors)
	r.Files = mgr.files
	sort.Slice(r.Files, func(i, j int) bool { return r.Files[i].Name < r.Files[j].Name })
	return r
}

// validate runs the REAL validator of the object's kind (snippets disabled); "" = accepted.
func (e *env) validate(w *World, oi int) string {
	o := w.Objs[oi]
	op := e.opts(w, nil)
	switch x := o.Val.(type) {
	case *networking.Ingress:
		if why := apiAdmitsIngress(x); why != "" {
			return "api-server: " + why
		}
		if errs := k8s.VerifC06ValidateIngress(x, w.Plus, false); len(errs) > 0 {
			return errs[0]
		}
	case *conf_v1.VirtualServer:
		if err := k8s.VerifC06VSValidator(op).ValidateVirtualServer(x); err != nil {
			return firstLine(err.Error())
		}
	case *conf_v1.VirtualServerRoute:
		host, prefix := "", ""
		for _, o2 := range w.Objs {
			if vs, ok := o2.Val.(*conf_v1.VirtualServer); ok {
				for _, rt := range vs.Spec.Routes {
					if rt.Route == x.Namespace+"/"+x.Name || rt.Route == x.Name {
						host, prefix = vs.Spec.Host, rt.Path
					}
				}
			}
		}
		if err := k8s.VerifC06VSValidator(op).ValidateVirtualServerRouteForVirtualServer(x, host, prefix); err != nil {
			return firstLine(err.Error())
		}
	case *conf_v1.TransportServer:
		if err := k8s.VerifC06TSValidator(op).ValidateTransportServer(x); err != nil {
			return firstLine(err.Error())
		}
	case *conf_v1.Policy:
		if x.Spec.IngressClass != "" && x.Spec.IngressClass != "nginx" {
			return "class: policy of a foreign ingress class is ignored"
		}
		if err := validation.ValidatePolicy(x, w.Plus, w.Plus, false); err != nil {
			return firstLine(err.Error())
		}
	}
	return ""
}

// ---------------------------------------------------------------- leaves of an object

func kindName(o Obj) string {
	switch o.Val.(type) {
	case *networking.Ingress:
		return "Ingress"
	case *conf_v1.VirtualServer:
		return "VirtualServer"
	case *conf_v1.VirtualServerRoute:
		return "VirtualServerRoute"
	case *conf_v1.TransportServer:
		return "TransportServer"
	case *conf_v1.Policy:
		return "Policy"
	}
	return "?"
}

// roots returns the mutable roots of an object: (pointer, path prefix)
func roots(v any) [][2]any {
	switch x := v.(type) {
	case *networking.Ingress:
		if x.Annotations == nil {
			x.Annotations = map[string]string{}
		}
		return [][2]any{{&x.Annotations, "annotations"}, {&x.Spec, "spec"}}
	case *conf_v1.VirtualServer:
		return [][2]any{{&x.Spec, "spec"}}
	case *conf_v1.VirtualServerRoute:
		return [][2]any{{&x.Spec, "spec"}}
	case *conf_v1.TransportServer:
		return [][2]any{{&x.Spec, "spec"}}
	case *conf_v1.Policy:
		return [][2]any{{&x.Spec, "spec"}}
	}
	return nil
}

var annValRe = regexp.MustCompile(`^annotations\[(.*)\]$`)

func objLeaves(o Obj, extraAnn []string) []Leaf {
	var out []Leaf
	if ing, ok := o.Val.(*networking.Ingress); ok {
		for _, k := range extraAnn {
			if _, present := ing.Annotations[k]; !present {
				out = append(out, Leaf{Path: "annotations[" + k + "]", Field: "Ingress.annotations[" + k + "]", Value: ""})
			}
		}
	}
	for _, rt := range roots(o.Val) {
		for _, l := range leavesOf(rt[0], rt[1].(string)) {
			if l.IsKey && strings.HasPrefix(l.Path, "annotations{") {
				continue // another key is another annotation (a different field), not a value of this one
			}
			if m := annValRe.FindStringSubmatch(l.Path); m != nil {
				l.Field = "annotations[" + m[1] + "]"
			}
			l.Field = kindName(o) + "." + l.Field
			out = append(out, l)
		}
	}
	return out
}

func objSet(v any, path, val string) bool {
	if ing, ok := v.(*networking.Ingress); ok {
		if m := annValRe.FindStringSubmatch(path); m != nil {
			if ing.Annotations == nil {
				ing.Annotations = map[string]string{}
			}
			ing.Annotations[m[1]] = val
			return true
		}
	}
	for _, rt := range roots(v) {
		if setLeaf(rt[0], rt[1].(string), path, val) {
			return true
		}
	}
	return false
}

// ---------------------------------------------------------------- corpus

var corePayloads = []string{
	";", "{", "}", "#", "\"", "'", "\\", "\r", "\n", "\t", " ", "$", "${", "%\\\"{",
	// values that are accepted only as long as nobody trims them: backslash-blank endings, leading blanks
	"\\ ", "\\\t", " \\ ", "\\ \t", " x", "\tx",
	"; injected on;", "a;b", "a{b", "a}b", "a#b", "a\"b", "a'b", "a\\", "a\\b", "a b", "a\tb", "a\nb", "a\r\nb",
	" ;", "\n;", "\n}", "{}", "#x\n", "\";", "';", "\\;", "\\\"", "\\\\", "\\\\;", "\";\"", "\"; }", "'; }", "x;}", "};", "}\n}",
	"$x", "${x}", "${x};", "$x;", "${", "$(x)", "${x", "$;",
	",x;y", " x;y", ",a{", "=x;", ":x;", "/x;", "/x{", "/x\\", "/x}", "/{", "/a{1,3}", "/a{1", "/x\"", "/x'", "/$x", "/x y", "/x\ty",
	"\x00", "\x7f", "\x80", "\xc2\xa0", "\xc2\x85", "\xe2\x80\xa8", "\x0b", "\x0c", "\x1b",
	"`", "(", ")", "*", "~", "|", "<", ">", "%", "&", "=", "!", "^",
	"x\";\n}\nserver {", "on;\nload_module x", "\\x3b", "\\073", "%3B", "&#59;",
	"%20", "%s", "%d;", "%\\\"{", "/a%20b", "%!;", "%q", "\\{", "\\}", "\\#", "\\ ", "\\\n", "$\\", "$;x", "${x};y", "~;", "=;", "@x;",
}

// candidates(v0) = the payloads alone and combined with the fixture's own (valid) value
// lite: only the placements alone / append / prepend / after each token (secondary contexts in the quick tier)
func candidates(v0 string, payloads []string, thorough, lite bool, bases []string, bpayloads []string) []struct{ val, placement string; pid int } {
	type c = struct {
		val, placement string
		pid            int
	}
	var out []c
	seen := map[string]bool{v0: true}
	add := func(v, pl string, pid int) {
		if !seen[v] {
			seen[v] = true
			out = append(out, c{v, pl, pid})
		}
	}
	for i, p := range payloads {
		add(p, "alone", i)
		if v0 != "" {
			add(v0+p, "append", i)
			add(p+v0, "prepend", i)
			// after every white-space / comma / equals separated token of the valid value
			for k := 1; k < len(v0); k++ {
				if (v0[k] == ' ' || v0[k] == ',' || v0[k] == ';' || v0[k] == '=' || v0[k] == ':') && v0[k-1] != ' ' {
					add(v0[:k]+p+v0[k:], "token", i)
				}
			}
			if lite {
				continue
			}
			add(v0[:len(v0)-1]+p, "replace-last", i)
			add(p+v0[1:], "replace-first", i)
			if len(v0) >= 2 {
				add(v0[:len(v0)-1]+p+v0[len(v0)-1:], "before-last", i)
				k := len(v0) / 2
				if thorough && k != len(v0)-1 && k > 0 {
					add(v0[:k]+p+v0[k:], "middle", i)
				}
			}
		}
	}
	// grammar-aware construction: the boundary payloads at every grammar boundary (each side of every punctuation
	// byte) of the fixture's value and of the other ACCEPTED shapes of this field (bases[1:]), so that a dangerous
	// byte can ride on a syntactic feature the field's parser tolerates (after % @ ? : [ ~ * = ...)
	for bi, b := range bases {
		for i, p := range bpayloads {
			if bi > 0 {
				add(b+p, "shape-append", i)
				add(p+b, "shape-prepend", i)
			}
			for _, k := range boundaries(b) {
				add(b[:k]+p+b[k:], "boundary", i)
			}
		}
	}
	return out
}

func isAlnum(c byte) bool {
	return (c >= '0' && c <= '9') || (c >= 'a' && c <= 'z') || (c >= 'A' && c <= 'Z')
}

// boundaries: the positions 0 < k < len(v) next to a punctuation byte (at most the first 5 and the last 3)
func boundaries(v string) []int {
	var out []int
	for k := 1; k < len(v); k++ {
		if !isAlnum(v[k-1]) || !isAlnum(v[k]) {
			out = append(out, k)
		}
	}
	if len(out) > 8 {
		out = append(append([]int(nil), out[:5]...), out[len(out)-3:]...)
	}
	return out
}

// boundaryPayloads: what is inserted at the grammar boundaries
var boundaryPayloads = []string{"\\ ", ";", "{", "}", "\"", "\\", " #", "\n;"}

// shapePool: values of different grammatical shapes.  For every attacked leaf the REAL validator says which of them
// the field accepts; the accepted ones (unless the field accepts nearly everything: free text) become additional base
// values for the grammar-aware construction.
var shapePool = [][]string{
	{"10.0.0.1", "10.0.0.0/8", "2001:db8::1", "2001:db8::/32", "fe80::1%eth0", "::ffff:1.2.3.4", "[::1]", "fe80::1%0"},
	{"/p", "=/p", "~ ^/p", "~* ^/p", "~^/p", "~*^/p", "~/p", "~*/p"},
	{"https://user:pw@h.example.com:8443/p?q=1#frag", "http://[::1]:8080/p", "https://h.example.com", "h.example.com:80", "unix:/tmp/s.sock"},
	{"10", "8k", "1m", "30s", "1h 30m", "5ms", "max", "10r/s"},
	{"A,B", "A: b,C: d", "a=b", "a=b c=d", "k=v;k2=v2"},
	{"$x", "${x}", "$1", "${x}y${z}", "hash $x consistent", "hash ${x}"},
	{"on", "off", "true", "x", "a b", "a.b-c_d", "*.example.com", "a/b"},
}

// neutralize replaces every byte that can be structural for the NGINX lexer (or is not plain
// printable ASCII) by harmless text of the same shape: vertical/horizontal white space other than
// the space itself becomes a space, everything else dangerous becomes the letter x.
func neutralize(s string) string {
	b := []byte(s)
	for i, c := range b {
		switch {
		case c == '\t' || c == '\n' || c == '\r' || c == 0x0b || c == 0x0c:
			b[i] = ' '
		case c == ';' || c == '{' || c == '}' || c == '#' || c == '"' || c == '\'' || c == '\\' || c == '$' || c == '`':
			b[i] = 'x'
		case c < 0x20 || c >= 0x7f:
			b[i] = 'x'
		}
	}
	return string(b)
}

// ---------------------------------------------------------------- cases

type FileDiff struct {
	Name string `json:"name"`
	Base int    `json:"base"` // index into the base record's files; -1 = not present in the base rendering
	Plen int    `json:"plen"`
	Slen int    `json:"slen"`
	Mid  []int  `json:"mid"`
}

type Obs struct {
	Accepted bool       `json:"accepted"`
	Reject   string     `json:"reject,omitempty"`
	Attached bool       `json:"attached"`
	Files    []FileDiff `json:"files,omitempty"`
	HFiles   []FileDiff `json:"hfiles,omitempty"`
	Errors   []string   `json:"errors,omitempty"`
	Warnings int        `json:"warnings"`
	Classes  []ClassViol `json:"class_violations,omitempty"` // strings of the template data outside their declared class
	Raw      bool       `json:"raw,omitempty"` // the value appears verbatim in the rendering
	Go       int        `json:"go_verdict"` // 0 same events, 1 arity only, 2 structure differs
	Panic    string     `json:"panic,omitempty"`
	Error    string     `json:"error,omitempty"`
}

type Case struct {
	Rec       string `json:"rec"` // "case"
	ID        int    `json:"id"`
	Fixture   string `json:"fixture"`
	Plus      bool   `json:"plus"`
	BaseID    int    `json:"base_id"`
	Obj       int    `json:"obj"`
	Kind      string `json:"kind"`
	Path      string `json:"path"`
	Field     string `json:"field"`
	Ctx       string `json:"ctx,omitempty"` // context selectors of the leaf (leafContext)
	History   string `json:"history,omitempty"` // controller-level family: how the value was delivered (see histories.go)
	Placement string `json:"placement"`
	PayloadID int    `json:"payload_id"`
	Value     []int  `json:"value"`
	Harmless  []int  `json:"harmless"`
	HKind     string `json:"harmless_kind"` // neutralized | original
	Obs       Obs    `json:"obs"`
}

type BaseRec struct {
	Classes  []ClassViol `json:"class_violations,omitempty"`
	Rec      string     `json:"rec"` // "base"
	BaseID   int        `json:"base_id"`
	Fixture  string     `json:"fixture"`
	Plus     bool       `json:"plus"`
	Files    []FileDiff `json:"files"` // Plen=Slen=0, Mid = whole content
	Attached []string   `json:"attached"`
	Leaves   int        `json:"leaves"`
	Invalid  []string   `json:"invalid,omitempty"` // objects of the fixture its own validator rejects (fixture bug)
	Errors   []string   `json:"errors,omitempty"`
	Warnings int        `json:"warnings"`
}

type FieldStat struct {
	Candidates  int `json:"candidates"`
	Rejected    int `json:"rejected"`
	Accepted    int `json:"accepted"`
	NotAttached int `json:"not_attached"`
	Identical   int `json:"identical"`
	Benign      int `json:"benign_value"`
	Differ      int `json:"differ"`
	Emitted     int `json:"emitted"`
	Suspect     int `json:"suspect"`
	Arity       int `json:"arity"`
	GenErrors   int `json:"gen_errors"`
	RejectedProbes int `json:"rejected_probes"` // values the validator function rejects, delivered through the controller
	RejectedServed int `json:"rejected_served"` // ... and rendered all the same
	ShapesAccepted int `json:"shapes_accepted"` // other grammatical shapes the real validator accepts for the field (used as bases)
	Raw         int `json:"raw_reach"` // accepted candidates whose value appears verbatim in the rendering (and not in the base rendering)
}

type Summary struct {
	Contexts map[string]int       `json:"contexts"` // context selector string -> number of (field, context) pairs attacked
	Rec     string                `json:"rec"` // "summary"
	Fixture string                `json:"fixture"`
	Plus    bool                  `json:"plus"`
	Fields  map[string]*FieldStat `json:"fields"`
}

type Inventory struct {
	Rec            string   `json:"rec"` // "inventory"
	TypeLeaves     []string `json:"type_leaves"`
	Covered        []string `json:"covered"`
	Uncovered      []string `json:"uncovered"`
	AnnKeysRead    []string `json:"annotation_keys_read"`
	AnnValidated   []string `json:"annotation_keys_validated"`
	AnnUnvalidated []string `json:"annotation_keys_unvalidated"`
	AnnUncovered   []string `json:"annotation_keys_uncovered"`
	Payloads       int      `json:"payloads"`
}

func diffAgainst(base []file, fs []file) []FileDiff {
	var out []FileDiff
	for _, f := range fs {
		d := FileDiff{Name: f.Name, Base: -1}
		for i, b := range base {
			if b.Name == f.Name {
				d.Base = i
				p := 0
				for p < len(b.Bytes) && p < len(f.Bytes) && b.Bytes[p] == f.Bytes[p] {
					p++
				}
				s := 0
				for s < len(b.Bytes)-p && s < len(f.Bytes)-p && b.Bytes[len(b.Bytes)-1-s] == f.Bytes[len(f.Bytes)-1-s] {
					s++
				}
				d.Plen, d.Slen = p, s
				d.Mid = vh.Bytes(string(f.Bytes[p : len(f.Bytes)-s]))
				break
			}
		}
		if d.Base < 0 {
			d.Mid = vh.Bytes(string(f.Bytes))
		}
		out = append(out, d)
	}
	return out
}

func sameFiles(a, b []file) bool {
	if len(a) != len(b) {
		return false
	}
	for i := range a {
		if a[i].Name != b[i].Name || !bytes.Equal(a[i].Bytes, b[i].Bytes) {
			return false
		}
	}
	return true
}

func filesVerdict(a, b []file) int {
	if len(a) != len(b) {
		return 2
	}
	v := 0
	for i := range a {
		if a[i].Name != b[i].Name {
			return 2
		}
		if x := summaryVerdict(lexOf(&a[i]), lexOf(&b[i])); x > v {
			v = x
		}
	}
	return v
}

func hashFiles(fs []file) string {
	h := sha1.New()
	for _, f := range fs {
		h.Write([]byte(f.Name))
		h.Write([]byte{0})
		h.Write(f.Bytes)
		h.Write([]byte{0})
	}
	return hex.EncodeToString(h.Sum(nil)[:10])
}

func eqStrings(a, b []string) bool {
	if len(a) != len(b) {
		return false
	}
	for i := range a {
		if a[i] != b[i] {
			return false
		}
	}
	return true
}

func mutate(w *World, oi int, path, val string) *World {
	w2 := *w
	w2.Objs = append([]Obj(nil), w.Objs...)
	cp := deepCopy(w.Objs[oi].Val)
	if !objSet(cp, path, val) {
		return nil
	}
	w2.Objs[oi].Val = cp
	return &w2
}

// judge runs one candidate and fills the case; returns (case, class) with class one of
// rejected | not-attached | identical | differ | error
func (e *env) judge(w *World, base *Render, oi int, l Leaf, val string, hcache map[string]*Render) (Case, string) {
	c := Case{Rec: "case", Obj: oi, Kind: w.Objs[oi].Kind, Path: l.Path, Field: l.Field, Plus: w.Plus, Value: vh.Bytes(val)}
	w2 := mutate(w, oi, l.Path, val)
	if w2 == nil {
		c.Obs.Error = "leaf path vanished"
		return c, "error"
	}
	if why := crdAdmits(kindName(w.Objs[oi]), l.Path, val); why != "" {
		c.Obs.Reject = why
		return c, "rejected"
	}
	if why := e.validate(w2, oi); why != "" {
		c.Obs.Reject = why
		return c, "rejected"
	}
	c.Obs.Accepted = true
	if neutralize(val) == val {
		// the value contains no byte that is structural for the lexer (only plain printable ASCII and
		// spaces): it IS harmless text; whatever the generator makes of it is intended structure
		return c, "benign"
	}
	r := e.runWorld(w2)
	c.Obs.Errors, c.Obs.Warnings, c.Obs.Panic = r.Errors, r.Warnings, r.Panic
	if r.Panic != "" {
		return c, "error"
	}
	if !eqStrings(r.Attached, base.Attached) {
		return c, "not-attached"
	}
	c.Obs.Attached = true
	if len(val) > 0 {
		for _, f := range r.Files {
			if bytes.Contains(f.Bytes, []byte(val)) {
				inBase := false
				for _, b := range base.Files {
					if b.Name == f.Name && bytes.Contains(b.Bytes, []byte(val)) {
						inBase = true
					}
				}
				if !inBase {
					c.Obs.Raw = true
				}
			}
		}
	}
	// harmless rendering
	hr, hv, hk := base, l.Value, "original"
	if nv := neutralize(val); nv != val && nv != l.Value {
		cached, ok := hcache[nv]
		if !ok {
			if w3 := mutate(w, oi, l.Path, nv); w3 != nil && crdAdmits(kindName(w.Objs[oi]), l.Path, nv) == "" && e.validate(w3, oi) == "" {
				r3 := e.runWorld(w3)
				if r3.Panic == "" && eqStrings(r3.Attached, base.Attached) {
					cached = &r3
				}
			}
			hcache[nv] = cached
		}
		if cached != nil {
			hr, hv, hk = cached, nv, "neutralized"
		}
	}
	c.Harmless, c.HKind = vh.Bytes(hv), hk
	if sameFiles(r.Files, hr.Files) || sameFiles(r.Files, base.Files) {
		return c, "identical"
	}
	// the verdict is the more favourable of the two comparisons (against the neutralized value and
	// against the fixture's original value): a genuine injection changes the structure against both;
	// a difference against only one of them is a different branch of the generator (for instance the
	// neutralized text is not a parsable rate and the directive is dropped)
	c.Obs.Go = filesVerdict(r.Files, hr.Files)
	if hk == "neutralized" {
		if vo := filesVerdict(r.Files, base.Files); vo < c.Obs.Go {
			c.Obs.Go = vo
		}
		c.Obs.HFiles = diffAgainst(base.Files, hr.Files)
	}
	c.Obs.Files = diffAgainst(base.Files, r.Files)
	return c, "differ"
}

// ---------------------------------------------------------------- inventory

var annKeyRe = regexp.MustCompile(`"((?:nginx\.org|nginx\.com|appprotect\.f5\.com|appprotectdos\.f5\.com|nsm\.nginx\.com|ingress\.kubernetes\.io)/[A-Za-z0-9_.-]+)"`)

func annotationKeysRead() []string {
	set := map[string]bool{}
	for _, dir := range []string{"internal/configs", "internal/k8s"} {
		ents, _ := os.ReadDir(filepath.Join(repoDir(), dir))
		for _, en := range ents {
			n := en.Name()
			if en.IsDir() || !strings.HasSuffix(n, ".go") || strings.HasSuffix(n, "_test.go") || strings.HasPrefix(n, "zz_verif") {
				continue
			}
			b, err := os.ReadFile(filepath.Join(repoDir(), dir, n))
			if err != nil {
				continue
			}
			for _, m := range annKeyRe.FindAllSubmatch(b, -1) {
				set[string(m[1])] = true
			}
		}
	}
	var out []string
	for k := range set {
		out = append(out, k)
	}
	sort.Strings(out)
	return out
}

func inventory(covered map[string]bool, annCovered map[string]bool) Inventory {
	inv := Inventory{Rec: "inventory", Payloads: len(corePayloads)}
	var tl []string
	seen := map[reflect.Type]int{}
	typeLeaves(reflect.TypeOf(conf_v1.VirtualServerSpec{}), "VirtualServer.spec", seen, &tl)
	typeLeaves(reflect.TypeOf(conf_v1.VirtualServerRouteSpec{}), "VirtualServerRoute.spec", seen, &tl)
	typeLeaves(reflect.TypeOf(conf_v1.TransportServerSpec{}), "TransportServer.spec", seen, &tl)
	typeLeaves(reflect.TypeOf(conf_v1.PolicySpec{}), "Policy.spec", seen, &tl)
	typeLeaves(reflect.TypeOf(networking.IngressSpec{}), "Ingress.spec", seen, &tl)
	sort.Strings(tl)
	inv.TypeLeaves = tl
	for _, p := range tl {
		if covered[p] {
			inv.Covered = append(inv.Covered, p)
		} else {
			inv.Uncovered = append(inv.Uncovered, p)
		}
	}
	inv.AnnKeysRead = annotationKeysRead()
	inv.AnnValidated = k8s.VerifC06ValidatedAnnotations()
	val := map[string]bool{}
	for _, k := range inv.AnnValidated {
		val[k] = true
	}
	for _, k := range inv.AnnKeysRead {
		if !val[k] {
			inv.AnnUnvalidated = append(inv.AnnUnvalidated, k)
		}
		if !annCovered[k] {
			inv.AnnUncovered = append(inv.AnnUncovered, k)
		}
	}
	return inv
}

// ---------------------------------------------------------------- validator regexes

// RegexRec carries the verdicts of one REAL validator regular expression on a corpus; Rocq evaluates the
// hand transcription (Tmpl.Validators) on the same strings.
type RegexRec struct {
	Upper  bool       `json:"upper,omitempty"` // the model is an upper bound (the real validator is a parser)
	Rec    string     `json:"rec"`    // "regex"
	Name   string     `json:"name"`   // key of Tmpl.Validators.validator_regexes
	Source string     `json:"source"` // the Go variable
	Rows   []SweepRow `json:"rows"`
}

// SweepRow: the sample perturbed by every byte value at one position (mode 0 insert, 1 replace)
type SweepRow struct {
	Sample []int  `json:"sample"`
	Pos    int    `json:"pos"`
	Mode   int    `json:"mode"`
	Bits   string `json:"bits"` // 256 characters 0/1: MatchString of the real regexp
}

// strings the real expressions accept (checked: a sample the real expression rejects is skipped)
var regexSamples = map[string][]string{
	"vs_path": {"/", "/a-b/c"}, "ing_rewrite": {"/", "/a/b"}, "ing_path": {"/", "/a{1}"}, "escaped": {"", "a\\\"b", "x\\\\y"},
	"realm": {"", "My Realm", "a\\\"b"}, "jwt_token": {"$http_token", "$a\\b"}, "return_type": {"text/plain", "a\\;b"},
	"grpc_service": {"", "my.Service"}, "ts_hash": {"hash x", "hash ${remote_addr} consistent"}, "size": {"10", "8k"}, "offset": {"10", "2g"},
	"rate": {"10r/s", "1r/M"}, "proxy_buffers": {"4 8k"}, "time": {"30s", "1h 30m", "5ms"},
	// upper bounds: near misses that the real validator rejects today are perturbed as well
	"ip_or_cidr_upper": {"10.0.0.1", "10.0.0.0/8", "2001:db8::1", "2001:db8::/32", "fe80::1%0", "fe80::1%eth0", "::ffff:1.2.3.4"},
	"route_path_upper": {"/a-b", "=/a", "~ ^/a", "~^/a", "~* ^/a", "~*^/a[0-9]"},
	"limit_req_key": {"${binary_remote_addr}", "$a", "a${b_1}c$d"}, "ing_rate": {"10r/s", "7r/m"}, "http_header_name": {"X-Api-Key", "a"},
}

func regexRecords() []RegexRec {
	all := map[string]func(string) bool{}
	for _, m := range []map[string]*regexp.Regexp{validation.VerifC06Regexps(), configs.VerifC06Regexps(), k8s.VerifC06Regexps()} {
		for k, v := range m {
			all[k] = v.MatchString
		}
	}
	// the header-name expression lives (unexported) in k8s.io/apimachinery; IsHTTPHeaderName is its only use
	all["http_header_name@apimachinery.IsHTTPHeaderName"] = func(s string) bool { return len(k8svalidation.IsHTTPHeaderName(s)) == 0 }
	upper := map[string]bool{}
	for k, v := range validation.VerifC06UpperMatchers() {
		all[k] = v
		upper[k] = true
	}
	var keys []string
	for k := range all {
		keys = append(keys, k)
	}
	sort.Strings(keys)
	var out []RegexRec
	for _, k := range keys {
		parts := strings.SplitN(k, "@", 2)
		r := RegexRec{Rec: "regex", Name: parts[0], Source: parts[1], Upper: upper[k]}
		match := all[k]
		for _, smp := range regexSamples[parts[0]] {
			if !match(smp) && !upper[k] {
				continue
			}
			for mode := 0; mode < 2; mode++ {
				for pos := 0; pos <= len(smp)-mode; pos++ {
					if len(smp) > 12 && pos > 6 && pos < len(smp)-4 {
						continue // long samples: the two ends only
					}
					bits := make([]byte, 256)
					for c := 0; c < 256; c++ {
						t := smp[:pos] + string([]byte{byte(c)}) + smp[pos+mode:]
						if match(t) {
							bits[c] = '1'
						} else {
							bits[c] = '0'
						}
					}
					r.Rows = append(r.Rows, SweepRow{Sample: vh.Bytes(smp), Pos: pos, Mode: mode, Bits: string(bits)})
				}
			}
		}
		out = append(out, r)
	}
	return out
}

// GenPathRec: the real generatePath on a corpus of route paths (Rocq evaluates the model Validators.gen_path)
type GenPathRec struct {
	Rec string  `json:"rec"` // "genpath"
	In  [][]int `json:"in"`
	Out [][]int `json:"out"`
}

func genPathRecord() GenPathRec {
	r := GenPathRec{Rec: "genpath"}
	seen := map[string]bool{}
	add := func(s string) {
		if !seen[s] {
			seen[s] = true
			r.In = append(r.In, bytesOf(s))
			r.Out = append(r.Out, bytesOf(configs.VerifC06GeneratePath(s)))
		}
	}
	for _, b := range []string{"", "/", "/tea", "=/tea", "~ ^/tea", "~* ^/tea", "~^/tea", "~*^/tea", "~", "~*", "~ ", "~* ", "~  ^/two", "~*  x", "~/p", "~*/p", "~ *", "*~ x", " ~ x", "~^/t/[a-z]{2}", "~*^/t/\\d{3}"} {
		add(b)
		for _, p := range contextPayloads {
			add(b + p)
			if len(b) > 1 {
				add(b[:1] + p + b[1:])
				add(b[:2] + p + b[2:])
			}
		}
	}
	return r
}

// ---------------------------------------------------------------- main

func baseRecord(id int, fx string, w *World, r *Render, e *env) BaseRec {
	b := BaseRec{Rec: "base", BaseID: id, Fixture: fx, Plus: w.Plus, Attached: r.Attached, Errors: r.Errors, Warnings: r.Warnings}
	for _, f := range r.Files {
		b.Files = append(b.Files, FileDiff{Name: f.Name, Base: -1, Mid: vh.Bytes(string(f.Bytes))})
	}
	for oi, o := range w.Objs {
		if why := e.validate(w, oi); why != "" {
			b.Invalid = append(b.Invalid, o.Kind+" "+o.Name+": "+why)
		}
	}
	rs := e.runWorldS(w, true)
	local := map[string]ClassSample{}
	b.Classes = checkClasses(rs.Structs, local)
	classPoolMu.Lock()
	for k, v := range local {
		if _, dup := classPool[k]; !dup {
			classPool[k] = v
		}
	}
	classPoolMu.Unlock()
	if r.Panic != "" {
		b.Errors = append(b.Errors, "panic: "+r.Panic)
	}
	return b
}

// jobResult is what one (fixture, edition) pair produced
type jobResult struct {
	base       BaseRec
	errs       []Case
	suspects   []Case
	normal     []Case
	sum        Summary
	covered    map[string]bool
	annCovered map[string]bool
}

func runJob(e *env, fi int, fx Fixture, plus bool, rng *vh.Rng, thorough bool, budget int, chunk, nchunks int) jobResult {
	res := jobResult{covered: map[string]bool{}, annCovered: map[string]bool{}}
	w := fx.Build(plus)
	base := e.runWorld(w)
	nleaves := 0
	sum := Summary{Rec: "summary", Fixture: fx.Name, Plus: plus, Fields: map[string]*FieldStat{}}
	dedupe := map[string]bool{}
	perFieldSuspects := map[string]int{}
	fieldInstances := map[string]int{}
	ctxSeen := map[string]bool{}
	absent := map[int]*Render{}
	probed := map[string]bool{}
	// quick tier, NGINX Plus edition: a field that the NGINX edition of the same fixture also has got its full payload set
	// there; here it gets the context set (single structural bytes, classic combinations, trim grammar, boundaries)
	ossHas := map[string]bool{}
	if !thorough {
		var covering []*World
		if plus {
			covering = append(covering, fx.Build(false))
		}
		for _, f2 := range fixtures {
			if f2.Name == w.CoveredBy {
				covering = append(covering, f2.Build(plus))
			}
		}
		for _, cw := range covering {
			for _, o := range cw.Objs {
				for _, l := range objLeaves(o, nil) {
					if l.Value != "" {
						ossHas[normField(l.Field)] = true
					}
				}
			}
		}
	}
	for oi, o := range w.Objs {
		leaves := objLeaves(o, w.ExtraAnn)
		for _, l := range leaves {
			nleaves++
			if nleaves%nchunks != chunk {
				if !thorough {
					// instance numbering is global over the fixture, not per chunk
					nf := normField(l.Field)
					if l.Value == "" {
						nf += "|empty"
					}
					fieldInstances[nf]++
					fieldInstances[nf+"|"+leafContext(o, l)]++
				}
				continue
			}
			res.covered[l.Field] = true
			if m := annValRe.FindStringSubmatch(l.Path); m != nil {
				res.annCovered[m[1]] = true
			}
			st := sum.Fields[l.Field]
			if st == nil {
				st = &FieldStat{}
				sum.Fields[l.Field] = st
			}
			payloads := corePayloads
			lite := false
			wantShapes, wantBoundaries := thorough && !w.Secondary, thorough
			if thorough && w.Secondary {
				// a fixture that repeats fields under other context selectors: the single bytes and classic combinations
				payloads = corePayloads[:48]
			}
			if !thorough {
				// quick: the first instance of a field in a fixture gets the first 40 payloads (single bytes and the
				// classic combinations) plus a seed-dependent fifth of the rest; further instances of the same field
				// (the same Go type reached through another path index) get a seed-dependent sample of 5
				lr := rng.Fork(uint64(fi*100000 + oi*1000 + nleaves))
				nf := normField(l.Field)
				if l.Value == "" {
					nf += "|empty" // an unset instance must not use up the full payload set of the field
				}
				ck := nf + "|" + leafContext(o, l)
				fieldInstances[nf]++
				fieldInstances[ck]++
				switch {
				case fieldInstances[nf] == 1 && !w.Secondary && !ossHas[normField(l.Field)]:
					wantShapes, wantBoundaries = true, true
					payloads = append([]string(nil), corePayloads[:47]...)
					for _, p := range corePayloads[47:] {
						if lr.Chance(1, 6) {
							payloads = append(payloads, p)
						}
					}
				case fieldInstances[ck] == 1:
					// the same field under context selectors not seen before (another path kind, location kind,
					// upstream type, path-regex value, ...): another validator or rendering site may apply
					payloads = contextPayloads
					lite = true
					wantBoundaries = true
				default:
					payloads = nil
					for k := 0; k < 5; k++ {
						payloads = append(payloads, corePayloads[lr.Intn(len(corePayloads))])
					}
				}
			}
			lctx := leafContext(o, l)
			if sum.Contexts == nil {
				sum.Contexts = map[string]int{}
			}
			if !ctxSeen[normField(l.Field)+"|"+lctx] {
				ctxSeen[normField(l.Field)+"|"+lctx] = true
				sum.Contexts[lctx]++
			}
			if pk := normField(l.Field) + "|" + resourceContext(o); o.Kind != "policy" && !probed[pk] && (thorough || l.Value != "" || !probed[pk+"|e"]) {
				// once per field and RESOURCE-level context (the verdict of the controller is about the whole resource)
				probed[pk] = l.Value != ""
				probed[pk+"|e"] = true
				// rejected, hence not served: a value the real validator function rejects, through the real controller path
				if c, ok, served := e.rejectedProbe(w, &base, oi, l, absent); ok {
					st.RejectedProbes++
					if served {
						st.RejectedServed++
						c.Fixture, c.Ctx = fx.Name, leafContext(o, l)
						res.errs = append(res.errs, c)
					}
				}
			}
			// other accepted shapes of this field (first instance of the field, or of the field in a new context)
			bases := []string{l.Value}
			var bpayloads []string
			if wantBoundaries || wantShapes {
				bpayloads = boundaryPayloads
			}
			if wantShapes {
				var acc []string
				n, nacc := 0, 0
				for _, fam := range shapePool {
					taken := 0
					for _, sh := range fam {
						n++
						if sh == l.Value {
							continue
						}
						if w2 := mutate(w, oi, l.Path, sh); w2 != nil && crdAdmits(kindName(o), l.Path, sh) == "" && e.validate(w2, oi) == "" {
							nacc++
							if taken < 8 {
								acc = append(acc, sh)
							}
							taken++
						}
					}
				}
				if nacc*2 <= n {
					bases = append(bases, acc...)
				} // else: the field accepts most shapes, it is free text: its own value is as good a base as any
				st.ShapesAccepted += len(bases) - 1
			}
			hcache := map[string]*Render{}
			for _, cd := range candidates(l.Value, payloads, thorough, lite, bases, bpayloads) {
				st.Candidates++
				c, class := e.judge(w, &base, oi, l, cd.val, hcache)
				c.Fixture, c.Placement, c.PayloadID, c.Ctx = fx.Name, cd.placement, cd.pid, lctx
				if c.Obs.Raw && class == "differ" {
					st.Raw++
				}
				switch class {
				case "rejected":
					st.Rejected++
				case "not-attached":
					st.Accepted++
					st.NotAttached++
				case "benign":
					st.Accepted++
					st.Benign++
				case "identical":
					st.Accepted++
					st.Identical++
				case "error":
					st.GenErrors++
					res.errs = append(res.errs, c)
				case "differ":
					st.Accepted++
					st.Differ++
					if len(c.Obs.Errors) > 0 {
						st.GenErrors++
					}
					// dedupe identical (rendering, harmless rendering) pairs per field
					hk := sha1.Sum([]byte(l.Field + "|" + fmt.Sprint(c.Obs.Files) + "|" + fmt.Sprint(c.Obs.HFiles)))
					if dedupe[string(hk[:])] {
						continue
					}
					dedupe[string(hk[:])] = true
					switch c.Obs.Go {
					case 2:
						st.Suspect++
						if perFieldSuspects[capKey(c)] < suspectCap(thorough) {
							perFieldSuspects[capKey(c)]++
							res.suspects = append(res.suspects, c)
						}
					case 1:
						st.Arity++
						res.normal = append(res.normal, c)
					default:
						res.normal = append(res.normal, c)
					}
				}
			}
		}
	}
	res.base = baseRecord(0, fx.Name, w, &base, e)
	res.base.Leaves = nleaves
	for k := 0; k < 4 && chunk == 0; k++ {
		if again := e.runWorld(fx.Build(plus)); !sameFiles(again.Files, base.Files) {
			res.base.Errors = append(res.base.Errors, "fixture renders nondeterministically (map iteration order?)")
			break
		}
	}
	if false {
		// a seed-dependent sample, but at least one case per field
		pr := rng.Fork(uint64(7000 + fi*2 + b2i(plus)))
		byField := map[string]bool{}
		var keep, rest []Case
		for _, c := range res.normal {
			if !byField[c.Field] {
				byField[c.Field] = true
				keep = append(keep, c)
			} else {
				rest = append(rest, c)
			}
		}
		for len(keep) < budget && len(rest) > 0 {
			i := pr.Intn(len(rest))
			keep = append(keep, rest[i])
			rest[i] = rest[len(rest)-1]
			rest = rest[:len(rest)-1]
		}
		res.normal = keep
	}
	res.sum = sum
	return res
}

func main() {
	a := vh.ParseArgs()
	if pf := os.Getenv("C06_PROF"); pf != "" {
		f, _ := os.Create(pf)
		_ = pprof.StartCPUProfile(f)
		defer pprof.StopCPUProfile()
	}
	out, err := vh.NewWriter(a.Out)
	if err != nil {
		fmt.Fprintln(os.Stderr, err)
		os.Exit(2)
	}
	defer out.Close()
	// the code under test logs to os.Stdout when it has no logger in its context
	if dn, err := os.OpenFile(os.DevNull, os.O_WRONLY, 0); err == nil && a.Out != "" {
		os.Stdout = dn
	}
	envs := map[bool]*env{}
	for _, p := range []bool{false, true} {
		e, err := newEnv(p)
		if err != nil {
			fmt.Fprintln(os.Stderr, "templates:", err)
			os.Exit(2)
		}
		envs[p] = e
	}
	if a.Replay != "" {
		replay(a, out, envs)
		return
	}
	rng := vh.NewRng(a.Seed)
	thorough := a.Tier == "thorough"
	type job struct {
		fi     int
		plus   bool
		chunk  int
		chunks int
	}
	var jobs []job
	for fi := range fixtures {
		n := 1
		if strings.HasPrefix(fixtures[fi].Name, "vs-rich") {
			n = 6
		} else if strings.HasPrefix(fixtures[fi].Name, "vs-cross") {
			n = 4
		} else if strings.HasPrefix(fixtures[fi].Name, "vs-") || strings.HasPrefix(fixtures[fi].Name, "ing-a") || fixtures[fi].Name == "mergeable" {
			n = 3
		}
		for _, plus := range []bool{false, true} {
			if !thorough && strings.HasPrefix(fixtures[fi].Name, "vs-cross") && (fi+int(a.Seed%2)+b2i(plus))%2 == 1 {
				// quick tier: each selector-crossing VirtualServer world runs in one edition, alternating with the
				// fixture and the seed (the validator and generator choices it crosses do not depend on the edition;
				// the thorough tier runs both)
				continue
			}
			for c := 0; c < n; c++ {
				jobs = append(jobs, job{fi, plus, c, n})
			}
		}
	}
	results := make([]jobResult, len(jobs))
	var wg sync.WaitGroup
	sem := make(chan struct{}, runtime.NumCPU())
	for k, j := range jobs {
		wg.Add(1)
		go func(k int, j job) {
			defer wg.Done()
			sem <- struct{}{}
			defer func() { <-sem }()
			results[k] = runJob(envs[j.plus], j.fi, fixtures[j.fi], j.plus, rng, thorough, a.N, j.chunk, j.chunks)
		}(k, j)
	}
	wg.Wait()
	covered, annCovered := map[string]bool{}, map[string]bool{}
	id, baseID := 0, 0
	for k := 0; k < len(results); {
		j := jobs[k]
		// merge the chunks of one (fixture, edition)
		first := &results[k]
		sum := Summary{Rec: "summary", Fixture: fixtures[j.fi].Name, Plus: j.plus, Fields: map[string]*FieldStat{}}
		var errs, suspects, normal []Case
		dedupe := map[string]bool{}
		perField := map[string]int{}
		for c := 0; c < j.chunks; c++ {
			r := &results[k+c]
			for f := range r.covered {
				covered[f] = true
			}
			for f := range r.annCovered {
				annCovered[f] = true
			}
			for cx, n := range r.sum.Contexts {
				if sum.Contexts == nil {
					sum.Contexts = map[string]int{}
				}
				sum.Contexts[cx] += n
			}
			for f, st := range r.sum.Fields {
				t := sum.Fields[f]
				if t == nil {
					t = &FieldStat{}
					sum.Fields[f] = t
				}
				t.Candidates += st.Candidates
				t.Rejected += st.Rejected
				t.Accepted += st.Accepted
				t.NotAttached += st.NotAttached
				t.Identical += st.Identical
				t.Benign += st.Benign
				t.Differ += st.Differ
				t.Suspect += st.Suspect
				t.Arity += st.Arity
				t.GenErrors += st.GenErrors
				t.RejectedProbes += st.RejectedProbes
				t.RejectedServed += st.RejectedServed
				t.ShapesAccepted += st.ShapesAccepted
				t.Raw += st.Raw
			}
			errs = append(errs, r.errs...)
			for _, cs := range r.suspects {
				hk := cs.Field + "|" + fmt.Sprint(cs.Obs.Files) + "|" + fmt.Sprint(cs.Obs.HFiles)
				if dedupe[hk] || perField[capKey(cs)] >= suspectCap(thorough) {
					continue
				}
				dedupe[hk] = true
				perField[capKey(cs)]++
				suspects = append(suspects, cs)
			}
			for _, cs := range r.normal {
				hk := cs.Field + "|" + fmt.Sprint(cs.Obs.Files) + "|" + fmt.Sprint(cs.Obs.HFiles)
				if dedupe[hk] {
					continue
				}
				dedupe[hk] = true
				normal = append(normal, cs)
			}
		}
		pr := rng.Fork(uint64(7000 + j.fi*2 + b2i(j.plus)))
		if !thorough && len(normal) > a.N {
			// quick: a seed-dependent sample of a.N per (fixture, edition), at least one case per field
			byField := map[string]bool{}
			var keep, rest []Case
			for _, c := range normal {
				if !byField[normField(c.Field)] {
					byField[normField(c.Field)] = true
					keep = append(keep, c)
				} else {
					rest = append(rest, c)
				}
			}
			for len(keep) < a.N && len(rest) > 0 {
				i := pr.Intn(len(rest))
				keep = append(keep, rest[i])
				rest[i] = rest[len(rest)-1]
				rest = rest[:len(rest)-1]
			}
			normal = keep
		} else if thorough {
			// thorough: every argument-count change, and a seed-dependent sample of a.N per FIELD of the cases the
			// pre-screen sees no event difference in (the rest is covered by the pre-screen only; its agreement with
			// Rocq is checked on everything that is evaluated)
			perF := map[string][]Case{}
			var keep []Case
			var order []string
			for _, c := range normal {
				if c.Obs.Go == 1 {
					keep = append(keep, c)
					continue
				}
				if _, ok := perF[c.Field]; !ok {
					order = append(order, c.Field)
				}
				perF[c.Field] = append(perF[c.Field], c)
			}
			for _, f := range order {
				l := perF[f]
				for n := 0; n < a.N && len(l) > 0; n++ {
					i := pr.Intn(len(l))
					keep = append(keep, l[i])
					l[i] = l[len(l)-1]
					l = l[:len(l)-1]
				}
			}
			normal = keep
		}
		first.base.BaseID = baseID
		out.Emit(first.base)
		all := append(append(append([]Case(nil), errs...), suspects...), normal...)
		// the tested glue on every emitted accepted value whose structure is intact: strings of the template
		// data in their classes (in parallel; the sample pool is shared)
		var gw sync.WaitGroup
		gsem := make(chan struct{}, runtime.NumCPU())
		for ci := range all {
			c := &all[ci]
			if !(c.Obs.Accepted && c.Obs.Attached && c.Obs.Go != 2 && c.Obs.Panic == "") {
				continue
			}
			gw.Add(1)
			go func(c *Case) {
				defer gw.Done()
				gsem <- struct{}{}
				defer func() { <-gsem }()
				defer func() { _ = recover() }()
				if w2 := mutate(fixtures[j.fi].Build(j.plus), c.Obj, c.Path, stringOf(c.Value)); w2 != nil {
					rs := envs[j.plus].runWorldS(w2, true)
					local := map[string]ClassSample{}
					c.Obs.Classes = checkClasses(rs.Structs, local)
					classPoolMu.Lock()
					for k, v := range local {
						if _, dup := classPool[k]; !dup {
							classPool[k] = v
						}
					}
					classPoolMu.Unlock()
				}
			}(c)
		}
		gw.Wait()
		for _, c := range all {
			c.ID, c.BaseID = id, baseID
			id++
			if st := sum.Fields[c.Field]; st != nil {
				st.Emitted++
			}
			out.Emit(c)
		}
		out.Emit(sum)
		baseID++
		k += j.chunks
	}
	crdOnce.Do(loadCRDs)
	if crdErr != nil {
		fmt.Fprintln(os.Stderr, "crd schemas:", crdErr)
		os.Exit(2)
	}
	out.Emit(inventory(covered, annCovered))
	emitHistories(out, envs, thorough, &id, &baseID)
	for _, r := range regexRecords() {
		out.Emit(r)
	}
	for _, r := range selectorRecords(envs[false]) {
		out.Emit(r)
	}
	out.Emit(genPathRecord())
	// a bounded, seed-dependent sample of the membership verdicts (all negative ones, up to 1200 positive ones)
	var keys []string
	for k := range classPool {
		keys = append(keys, k)
	}
	sort.Strings(keys)
	pr := rng.Fork(991)
	type classRec struct {
		Rec     string        `json:"rec"`
		Samples []ClassSample `json:"samples"`
	}
	cr := classRec{Rec: "classes"}
	for _, k := range keys {
		smp := classPool[k]
		if !smp.OK || len(keys) <= 1200 || pr.Intn(len(keys)) < 1200 {
			cr.Samples = append(cr.Samples, smp)
		}
	}
	out.Emit(cr)
}

var (
	normRouteRe = regexp.MustCompile(`^VirtualServer(?:Route)?\.spec\.(?:sub)?routes\[\]\.(?:matches\[\]\.)?(?:splits\[\]\.)?(.*)$`)
	normUpRe    = regexp.MustCompile(`^VirtualServer(?:Route)?\.spec\.upstreams\[\]\.(.*)$`)
)

// normField: routes / subroutes (and the actions nested in matches / splits) share one Go type and
// one validator, likewise the upstreams of VirtualServer and VirtualServerRoute
func normField(f string) string {
	if m := normRouteRe.FindStringSubmatch(f); m != nil {
		return "Route." + m[1]
	}
	if m := normUpRe.FindStringSubmatch(f); m != nil {
		return "Upstream." + m[1]
	}
	return f
}

// capKey: suspects are capped per field AND context AND (for a route path) kind of the injected path, so that the
// witnesses of a known finding cannot crowd out a different defect on the same field
func capKey(c Case) string {
	k := c.Field + "|" + c.Ctx
	if strings.HasSuffix(c.Field, "outes[].path") {
		k += "|" + pathKind(stringOf(c.Value))
	}
	return k
}

// suspectCap: how many pre-screen suspects per field and (fixture, edition) are sent to Rocq
func suspectCap(thorough bool) int {
	if thorough {
		return 40
	}
	return 3
}

// ---------------------------------------------------------------- context selectors

var (
	ctxRouteRe = regexp.MustCompile(`^spec\.(?:sub)?routes\[(\d+)\](?:\.matches\[(\d+)\])?(?:\.splits\[(\d+)\])?(\.action\b)?`)
	ctxUpRe    = regexp.MustCompile(`^spec\.upstreams\[(\d+)\]`)
	ctxPathRe  = regexp.MustCompile(`^spec\.rules\[(\d+)\]\.http\.paths\[(\d+)\]`)
)

func pathKind(p string) string {
	switch {
	case strings.HasPrefix(p, "~*"):
		return "iregex"
	case strings.HasPrefix(p, "~"):
		return "regex"
	case strings.HasPrefix(p, "="):
		return "exact"
	}
	return "prefix"
}

func upType(ups []conf_v1.Upstream, name string) string {
	for _, u := range ups {
		if u.Name == name {
			switch {
			case u.Type == "grpc":
				return "grpc"
			case u.TLS.Enable:
				return "tls"
			}
			return "http"
		}
	}
	return "-"
}

func atoi(s string) int {
	n := 0
	for _, c := range s {
		n = n*10 + int(c-'0')
	}
	return n
}

// leafContext names the CONTEXT SELECTORS of a leaf: what, besides the field itself, decides which validator
// and which rendering site apply to it.  Route leaves: kind of the route path (prefix / regex / iregex / exact),
// kind of location (top, splits, matches, matches-splits; the default action of a route with matches is internal
// too: top+m), type of the upstream the enclosing action goes to, VirtualServer route or VirtualServerRoute
// subroute.  Upstream leaves: upstream type.  Ingress leaves: role (regular / master / minion), value of
// nginx.org/path-regex, pathType of the enclosing path.  TransportServer leaves: listener protocol, TLS termination.
func leafContext(o Obj, l Leaf) string {
	routeCtx := func(kind string, routes []conf_v1.Route, ups []conf_v1.Upstream) string {
		m := ctxRouteRe.FindStringSubmatch(l.Path)
		if m == nil {
			if u := ctxUpRe.FindStringSubmatch(l.Path); u != nil && atoi(u[1]) < len(ups) {
				return kind + ":up=" + upType(ups, ups[atoi(u[1])].Name)
			}
			return kind
		}
		ri := atoi(m[1])
		if ri >= len(routes) {
			return kind
		}
		r := routes[ri]
		loc := "top"
		var act *conf_v1.Action = r.Action
		if m[2] != "" && atoi(m[2]) < len(r.Matches) {
			loc = "matches"
			mt := r.Matches[atoi(m[2])]
			act = mt.Action
			if m[3] != "" && atoi(m[3]) < len(mt.Splits) {
				loc = "matches-splits"
				act = mt.Splits[atoi(m[3])].Action
				if mt.Splits[atoi(m[3])].Weight == 0 {
					loc += "-w0"
				}
			}
		} else if m[3] != "" && atoi(m[3]) < len(r.Splits) {
			loc = "splits"
			act = r.Splits[atoi(m[3])].Action
			if r.Splits[atoi(m[3])].Weight == 0 {
				loc += "-w0"
			}
		} else if len(r.Matches) > 0 {
			loc = "top+m"
		}
		up, ak := "-", "-"
		if m[4] == "" && m[2] == "" && m[3] == "" {
			// a leaf of the route itself (its path, ...): what the route does
			switch {
			case r.Route != "":
				ak = "route"
			case len(r.Splits) > 0:
				ak = "splits"
			}
		}
		if act != nil && (m[4] != "" || ak == "-") {
			switch {
			case act.Pass != "":
				ak = "pass"
				if m[4] != "" {
					up = upType(ups, act.Pass)
				}
			case act.Proxy != nil:
				ak = "proxy"
				if m[4] != "" {
					up = upType(ups, act.Proxy.Upstream)
				}
			case act.Redirect != nil:
				ak = "redirect"
			case act.Return != nil:
				ak = "return"
			}
		}
		return kind + ":" + pathKind(r.Path) + ":" + loc + ":up=" + up + ":act=" + ak
	}
	switch x := o.Val.(type) {
	case *conf_v1.VirtualServer:
		return routeCtx("vs", x.Spec.Routes, x.Spec.Upstreams)
	case *conf_v1.VirtualServerRoute:
		return routeCtx("vsr", x.Spec.Subroutes, x.Spec.Upstreams)
	case *networking.Ingress:
		role := "regular"
		if t := x.Annotations["nginx.org/mergeable-ingress-type"]; t != "" {
			role = t
		}
		c := "ing:" + role + ":regex=" + x.Annotations["nginx.org/path-regex"]
		if x.Labels["acme.cert-manager.io/http01-solver"] == "true" {
			c += ":solver"
		}
		if role != "regular" {
			// a minion inherits annotations of its master: whether the enabling annotation of a feature is the Ingress's own
			if _, own := x.Annotations["nginx.org/limit-req-rate"]; own {
				c += ":lr=own"
			} else {
				c += ":lr=none"
			}
		}
		if m := ctxPathRe.FindStringSubmatch(l.Path); m != nil {
			ri, pi := atoi(m[1]), atoi(m[2])
			if ri < len(x.Spec.Rules) && x.Spec.Rules[ri].HTTP != nil && pi < len(x.Spec.Rules[ri].HTTP.Paths) {
				if pt := x.Spec.Rules[ri].HTTP.Paths[pi].PathType; pt != nil {
					c += ":pathType=" + string(*pt)
				}
			}
		}
		return c
	case *conf_v1.TransportServer:
		tls := "notls"
		if x.Spec.TLS != nil && x.Spec.TLS.Secret != "" {
			tls = "tls"
		}
		return "ts:" + x.Spec.Listener.Protocol + ":" + tls
	}
	return ""
}

// resourceContext: the selectors that can change how the controller treats a resource AS A WHOLE
func resourceContext(o Obj) string {
	if x, ok := o.Val.(*networking.Ingress); ok {
		c := "ing:" + x.Annotations["nginx.org/mergeable-ingress-type"]
		if x.Labels["acme.cert-manager.io/http01-solver"] == "true" {
			c += ":solver"
		}
		return c
	}
	return o.Kind
}

// contextPayloads: what a (field, context) pair seen for the first time gets in the quick tier when the
// field itself was already attacked with the full quick set in another context: the single structural bytes and
// the classic terminator / quote / escape combinations
var contextPayloads = []string{"\\ ", "\\\t", ";", "{", "}", "#", "\"", "'", "\\", "\n", " ", "$", "${", "; injected on;", "a;b", "a{b", "\";", "\\;", "x;}", "#x\n"}

func stringOf(xs []int) string {
	b := make([]byte, len(xs))
	for i, x := range xs {
		b[i] = byte(x)
	}
	return string(b)
}

// classPool collects (class, value, verdict of tab.InClass) for the Rocq cross-check (filled sequentially)
var classPool = map[string]ClassSample{}
var classPoolMu sync.Mutex

func b2i(b bool) int {
	if b {
		return 1
	}
	return 0
}

// replay re-runs exactly the stored cases (fixture, edition, object, leaf path, value, harmless value)
func replay(a vh.Args, out *vh.Writer, envs map[bool]*env) {
	var cases []Case
	if err := vh.ReadReplay(a.Replay, &cases); err != nil {
		fmt.Fprintln(os.Stderr, "replay:", err)
		os.Exit(2)
	}
	bases := map[string]int{}
	for _, c := range cases {
		var fx *Fixture
		for i := range fixtures {
			if fixtures[i].Name == c.Fixture {
				fx = &fixtures[i]
			}
		}
		if fx == nil {
			c.Obs = Obs{Error: "unknown fixture " + c.Fixture}
			out.Emit(c)
			continue
		}
		e := envs[c.Plus]
		w := fx.Build(c.Plus)
		base := e.runWorld(w)
		key := fmt.Sprintf("%s/%v", c.Fixture, c.Plus)
		bid, ok := bases[key]
		if !ok {
			bid = len(bases)
			bases[key] = bid
			out.Emit(baseRecord(bid, fx.Name, w, &base, e))
		}
		val := make([]byte, len(c.Value))
		for i, x := range c.Value {
			val[i] = byte(x)
		}
		var leaf *Leaf
		if c.Obj >= 0 && c.Obj < len(w.Objs) {
			for _, l := range objLeaves(w.Objs[c.Obj], w.ExtraAnn) {
				if l.Path == c.Path {
					l := l
					leaf = &l
				}
			}
		}
		if leaf == nil {
			c.Obs = Obs{Error: "leaf " + c.Path + " not found in fixture"}
			out.Emit(c)
			continue
		}
		c2, class := e.judge(w, &base, c.Obj, *leaf, string(val), map[string]*Render{})
		c2.ID, c2.Fixture, c2.BaseID, c2.Placement, c2.PayloadID = c.ID, c.Fixture, bid, c.Placement, c.PayloadID
		c2.Ctx = leafContext(w.Objs[c.Obj], *leaf)
		if class != "differ" && c2.Obs.Error == "" {
			c2.Obs.Error = ""
			c2.Obs.Reject = strings.TrimSpace(c2.Obs.Reject + " [replay class: " + class + "]")
		}
		out.Emit(c2)
	}
}
