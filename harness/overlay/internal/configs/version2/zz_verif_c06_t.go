//go:build verif

package version2

import "text/template"

// VerifC06THelperFunctions exports the FuncMap the VirtualServer / TransportServer templates are
// parsed and executed with.
func VerifC06THelperFunctions() template.FuncMap { return helperFunctions }

// VerifC06TTLSPassthroughHostsTemplate exports the inline template of template_executor.go.
func VerifC06TTLSPassthroughHostsTemplate() string { return tlsPassthroughHostsTemplateString }
