//go:build verif

// Correspondence harness for C17 (no object the API server can admit makes the controller panic).
//
// X, exhaustive over shapes: the list of shape descriptors is printed by Rocq from the
// enumerations of coq/Shapes/Model.v (file given with -shapes); every descriptor is
// materialised as a concrete object and fed, under recover, to the validators, the real
// Configuration (against an empty and against populated states), createExtendedResources +
// the real Configurator over the real templates, Delete*, and the worker's sync function,
// in every combination of the feature flags the model reads (the remaining flags rotate in
// the quick tier and are swept in the thorough tier).  The observed Ok/Rejected/Panic digits
// are compared with the model's by the driver, shape by shape.
//
// S, random stream: schema-admissible objects with values; observable: no panic.
package main

import (
	"crypto/ecdsa"
	"crypto/elliptic"
	crand "crypto/rand"
	"crypto/x509"
	"crypto/x509/pkix"
	"encoding/json"
	"encoding/pem"
	"math/big"
	"flag"
	"fmt"
	"os"
	"runtime"
	"runtime/debug"
	"runtime/pprof"
	"strings"
	"sync"
	"time"

	"github.com/nginx/kubernetes-ingress/internal/k8s"
	"github.com/nginx/kubernetes-ingress/internal/verifh/vh"
	conf_v1 "github.com/nginx/kubernetes-ingress/pkg/apis/configuration/v1"
	api_v1 "k8s.io/api/core/v1"
	discovery_v1 "k8s.io/api/discovery/v1"
	networking "k8s.io/api/networking/v1"
	meta_v1 "k8s.io/apimachinery/pkg/apis/meta/v1"
	"k8s.io/apimachinery/pkg/types"
	"k8s.io/apimachinery/pkg/util/intstr"
)

// ---------------------------------------------------------------- cases

type PanicInfo struct {
	Combo string `json:"combo"`
	Stage string `json:"stage"`
	Msg   string `json:"msg"`
	Site  string `json:"site"`
}

type FlagDiff struct {
	Other int    `json:"other"` // bit set of the flags the model does not read
	Obs   string `json:"obs"`
}

type Case struct {
	Fam      string          `json:"fam"`
	ID       int             `json:"id"`
	Shape    string          `json:"shape,omitempty"`
	Obs      string          `json:"obs"`
	FlagDiff []FlagDiff      `json:"flagdiff,omitempty"`
	Panics   []PanicInfo     `json:"panics,omitempty"`
	Others   int             `json:"others,omitempty"` // how many settings of the remaining flags were run
	Kind     string          `json:"kind,omitempty"`   // random stream
	Flags    int             `json:"flags,omitempty"`
	Object   json.RawMessage `json:"object,omitempty"`
	Admitted *bool           `json:"admitted,omitempty"`
	Error    string          `json:"error,omitempty"`
}

// ---------------------------------------------------------------- flags

// bit order: plus, appProtect, appProtectDos, internalRoutes, snippets, certManager, tlsPassthrough
const (
	fPlus = 1 << iota
	fAppProtect
	fDos
	fInternal
	fSnippets
	fCertMgr
	fTLSPass
)

var repoRoot = func() string {
	if r := os.Getenv("VERIF_REPO"); r != "" {
		return r
	}
	return "/repo"
}()

var (
	tmplOnce sync.Once
	tmplOSS  *k8s.VerifC17Templates
	tmplPlus *k8s.VerifC17Templates
	tmplErr  error
)

func templates(plus bool) *k8s.VerifC17Templates {
	tmplOnce.Do(func() {
		tmplOSS, tmplErr = k8s.VerifC17LoadTemplates(repoRoot, false)
		if tmplErr == nil {
			tmplPlus, tmplErr = k8s.VerifC17LoadTemplates(repoRoot, true)
		}
	})
	if tmplErr != nil {
		fmt.Fprintf(os.Stderr, "c17: cannot parse the templates of %s: %v\n", repoRoot, tmplErr)
		os.Exit(4)
	}
	if plus {
		return tmplPlus
	}
	return tmplOSS
}

func newCtl(f int) *k8s.VerifC17 {
	o := k8s.VerifC17Opts{
		IsPlus: f&fPlus != 0, AppProtect: f&fAppProtect != 0, AppProtectDos: f&fDos != 0,
		InternalRoutes: f&fInternal != 0, Snippets: f&fSnippets != 0, CertManager: f&fCertMgr != 0,
		TLSPassthrough: f&fTLSPass != 0, ExternalDNS: f&fCertMgr != 0, OIDC: f&fPlus != 0, RepoRoot: repoRoot,
	}
	c := k8s.NewVerifC17(o, templates(o.IsPlus))
	fillListers(c)
	return c
}

// ---------------------------------------------------------------- recover

// guard runs f and returns "" or the panic text plus the innermost function of the
// kubernetes-ingress module on the panicking stack (not the harness, not the hook file).
func guard(f func()) (msg string, site string) {
	defer func() {
		if r := recover(); r != nil {
			msg = fmt.Sprint(r)
			site = panicSite()
		}
	}()
	f()
	return "", ""
}

func panicSite() string {
	pcs := make([]uintptr, 64)
	n := runtime.Callers(3, pcs)
	frames := runtime.CallersFrames(pcs[:n])
	for {
		fr, more := frames.Next()
		fn := fr.Function
		if strings.HasPrefix(fn, "github.com/nginx/kubernetes-ingress/") && !strings.Contains(fn, "/verifh/") &&
			!strings.Contains(fr.File, "zz_verif_") {
			return strings.TrimPrefix(fn, "github.com/nginx/kubernetes-ingress/")
		}
		if !more {
			break
		}
	}
	return "unknown"
}

// ---------------------------------------------------------------- fixtures

var t0 = time.Date(2024, 1, 1, 0, 0, 0, 0, time.UTC)

func meta(name string, created int) meta_v1.ObjectMeta {
	return meta_v1.ObjectMeta{Name: name, Namespace: "default", UID: types.UID(fmt.Sprintf("uid-%02d", created)),
		CreationTimestamp: meta_v1.NewTime(t0.Add(time.Duration(created) * time.Second)), Generation: 1}
}

const host1, host2 = "h1.example.com", "h2.example.com"

func fillListers(c *k8s.VerifC17) {
	tru := true
	p80 := int32(8080)
	pname := "http"
	_ = c.AddService(&api_v1.Service{ObjectMeta: meta("svc-a", 100), Spec: api_v1.ServiceSpec{
		ClusterIP: "10.0.0.1", Selector: map[string]string{"app": "a"},
		Ports: []api_v1.ServicePort{{Name: "http", Port: 80, TargetPort: intstr.FromInt(8080)}}}})
	sl := &discovery_v1.EndpointSlice{ObjectMeta: meta("svc-a-1", 101), AddressType: discovery_v1.AddressTypeIPv4,
		Endpoints: []discovery_v1.Endpoint{
			{Addresses: []string{"10.1.0.1"}, Conditions: discovery_v1.EndpointConditions{Ready: &tru},
				TargetRef: &api_v1.ObjectReference{Kind: "Pod", Namespace: "default", Name: "pod-a"}},
			{Addresses: []string{"10.1.0.2"}}, // ready nil, no targetRef
		},
		Ports: []discovery_v1.EndpointPort{{Name: &pname, Port: &p80}, {}}}
	sl.Labels = map[string]string{"kubernetes.io/service-name": "svc-a"}
	_ = c.AddSlice(sl)
	pod := &api_v1.Pod{ObjectMeta: meta("pod-a", 102), Status: api_v1.PodStatus{PodIP: "10.1.0.1"},
		Spec: api_v1.PodSpec{Containers: []api_v1.Container{{Name: "c", Ports: []api_v1.ContainerPort{{Name: "http", ContainerPort: 8080}}}}}}
	pod.Labels = map[string]string{"app": "a"}
	_ = c.AddPod(pod)
	_ = c.AddService(&api_v1.Service{ObjectMeta: meta("svc-ext", 103), Spec: api_v1.ServiceSpec{
		Type: api_v1.ServiceTypeExternalName, ExternalName: "ext.example.com",
		Ports: []api_v1.ServicePort{{Port: 80}}}})
}

func ctxVS() *conf_v1.VirtualServer {
	return &conf_v1.VirtualServer{ObjectMeta: meta("vs1", 0), Spec: conf_v1.VirtualServerSpec{
		IngressClass: "nginx", Host: host1,
		Upstreams: []conf_v1.Upstream{{Name: "u", Service: "svc-a", Port: 80}},
		Routes:    []conf_v1.Route{{Path: "/", Action: &conf_v1.Action{Pass: "u"}}}}}
}

func ctxMaster() *networking.Ingress {
	cls := "nginx"
	m := meta("a-master", 1)
	m.Annotations = map[string]string{"nginx.org/mergeable-ingress-type": "master"}
	return &networking.Ingress{ObjectMeta: m, Spec: networking.IngressSpec{IngressClassName: &cls,
		Rules: []networking.IngressRule{{Host: host1}}}}
}

func ctxMinion() *networking.Ingress {
	cls := "nginx"
	pt := networking.PathTypePrefix
	m := meta("a-minion", 2)
	m.Annotations = map[string]string{"nginx.org/mergeable-ingress-type": "minion"}
	return &networking.Ingress{ObjectMeta: m, Spec: networking.IngressSpec{IngressClassName: &cls,
		Rules: []networking.IngressRule{{Host: host1, IngressRuleValue: networking.IngressRuleValue{
			HTTP: &networking.HTTPIngressRuleValue{Paths: []networking.HTTPIngressPath{{Path: "/m", PathType: &pt,
				Backend: networking.IngressBackend{Service: &networking.IngressServiceBackend{Name: "svc-a",
					Port: networking.ServiceBackendPort{Number: 80}}}}}}}}}}}
}

// populate stores the objects of prior state number ctx through the real entry points.
// viaSync: through the worker's sync function (listers filled too), else straight into
// the Configuration.
func populate(c *k8s.VerifC17, ctx int, viaSync bool) {
	var objs []interface{}
	switch ctx {
	case 1:
		objs = []interface{}{ctxVS()}
	case 2:
		objs = []interface{}{ctxMaster(), ctxMinion()}
	case 3:
		objs = []interface{}{ctxMinion()}
	}
	for _, o := range objs {
		if viaSync {
			_ = c.Sync(o, false)
			continue
		}
		switch x := o.(type) {
		case *conf_v1.VirtualServer:
			c.Configuration().AddOrUpdateVirtualServer(x)
		case *networking.Ingress:
			c.Configuration().AddOrUpdateIngress(x)
		}
	}
}

// ---------------------------------------------------------------- Ingress shapes

// Shape codes (see coq/Shapes/Cases.v): 12 decimal digits 1 d t m c a n h s k k2 r2.
//   d default backend (0 none, 1 service, 2 resource, 3 neither); t tls; m mergeable type
//   (0 none, 1 master, 2 minion, 3 garbage); c challenge label; a annotations; n number of
//   rules; h http of rule 1 (0 nil, 1 no paths, 2 one path, 3 two paths); s pathType shape of
//   the first path (0 no pathType + "/p", 1 ImplementationSpecific + "", 2 Prefix + "/p");
//   k, k2 backends of the paths; r2 second rule (0 nil http, 1-3 backend of its one path).
func backendOf(k byte, svc string) networking.IngressBackend {
	switch k {
	case '1':
		return networking.IngressBackend{Service: &networking.IngressServiceBackend{Name: svc, Port: networking.ServiceBackendPort{Number: 80}}}
	case '2':
		g := "k8s.example.com"
		return networking.IngressBackend{Resource: &api_v1.TypedLocalObjectReference{APIGroup: &g, Kind: "StorageBucket", Name: "bucket"}}
	}
	return networking.IngressBackend{}
}

func pathOf(s byte, k byte, p string, svc string) networking.HTTPIngressPath {
	impl, pre := networking.PathTypeImplementationSpecific, networking.PathTypePrefix
	switch s {
	case '0':
		return networking.HTTPIngressPath{Path: p, Backend: backendOf(k, svc)}
	case '1':
		return networking.HTTPIngressPath{Path: "", PathType: &impl, Backend: backendOf(k, svc)}
	}
	return networking.HTTPIngressPath{Path: p, PathType: &pre, Backend: backendOf(k, svc)}
}

func ingressOfShape(d string) (*networking.Ingress, error) {
	bad := fmt.Errorf("bad ingress shape code %q", d)
	if len(d) != 12 || d[0] != '1' {
		return nil, bad
	}
	cls := "nginx"
	ing := &networking.Ingress{ObjectMeta: meta("z-new", 9), Spec: networking.IngressSpec{IngressClassName: &cls}}
	if d[1] != '0' {
		b := backendOf(d[1], "svc-d")
		ing.Spec.DefaultBackend = &b
	}
	if d[2] == '1' {
		ing.Spec.TLS = []networking.IngressTLS{{Hosts: []string{host1}, SecretName: "tls-secret"}}
	}
	ann := map[string]string{}
	switch d[3] {
	case '1':
		ann["nginx.org/mergeable-ingress-type"] = "master"
	case '2':
		ann["nginx.org/mergeable-ingress-type"] = "minion"
	case '3':
		ann["nginx.org/mergeable-ingress-type"] = "bogus"
	}
	if d[4] == '1' {
		ing.Labels = map[string]string{"acme.cert-manager.io/http01-solver": "true"}
	}
	switch d[5] {
	case '1':
		ann["nginx.org/use-cluster-ip"] = "true"
	case '2':
		ann["nginx.org/use-cluster-ip"] = "true"
		ann["nginx.com/health-checks"] = "true"
	}
	if len(ann) > 0 {
		ing.Annotations = ann // otherwise the map stays nil
	}
	n, h, sp, k, k2, r2 := d[6], d[7], d[8], d[9], d[10], d[11]
	if n == '0' {
		return ing, nil
	}
	var http *networking.HTTPIngressRuleValue
	switch h {
	case '0':
	case '1':
		http = &networking.HTTPIngressRuleValue{Paths: []networking.HTTPIngressPath{}}
	case '2':
		http = &networking.HTTPIngressRuleValue{Paths: []networking.HTTPIngressPath{pathOf(sp, k, "/p", "svc-a")}}
	case '3':
		http = &networking.HTTPIngressRuleValue{Paths: []networking.HTTPIngressPath{pathOf(sp, k, "/p", "svc-a"), pathOf('2', k2, "/q", "svc-b")}}
	default:
		return nil, bad
	}
	ing.Spec.Rules = []networking.IngressRule{{Host: host1, IngressRuleValue: networking.IngressRuleValue{HTTP: http}}}
	if n == '2' {
		rr := networking.IngressRule{Host: host2}
		if r2 != '0' {
			rr.HTTP = &networking.HTTPIngressRuleValue{Paths: []networking.HTTPIngressPath{pathOf('2', r2, "/p", "svc-a")}}
		}
		ing.Spec.Rules = append(ing.Spec.Rules, rr)
	}
	return ing, nil
}

const ingKey = "default/z-new"

// pool keeps, per worker goroutine, populated controllers keyed by (flags, prior state, via
// sync): in the quick tier a controller is reused for the next shape as long as nothing
// panicked on it (every scenario ends by deleting the object under test, which restores the
// prior state); any scenario that shows a panic is re-run on fresh controllers and the fresh
// result is what is reported.  The thorough tier and replays always use fresh controllers.
type pool map[[3]int]*k8s.VerifC17

func (p pool) get(f, ctx int, viaSync bool) *k8s.VerifC17 {
	if p == nil {
		c := newCtl(f)
		populate(c, ctx, viaSync)
		return c
	}
	v := 0
	if viaSync {
		v = 1
	}
	k := [3]int{f, ctx, v}
	if c, ok := p[k]; ok {
		return c
	}
	c := newCtl(f)
	populate(c, ctx, viaSync)
	p[k] = c
	return c
}

func (p pool) drop(f, ctx int, viaSync bool) {
	if p == nil {
		return
	}
	v := 0
	if viaSync {
		v = 1
	}
	delete(p, [3]int{f, ctx, v})
}

// runIngOnce: one Ingress object, one flag setting, one prior state -> 5 digits
// (validate, store, extend+generate, delete, sync); 0 ok, 1 rejected, 2 panic.
func runIngOnce(p pool, ing *networking.Ingress, f int, ctx int, combo string, panics *[]PanicInfo) string {
	var mine []PanicInfo
	out := []byte("00000")
	note := func(stage int, name, msg, site string) {
		out[stage] = '2'
		mine = append(mine, PanicInfo{Combo: combo, Stage: name, Msg: msg, Site: site})
	}
	c := p.get(f, ctx, false)
	// validator alone
	var nerr int
	if m, s := guard(func() { nerr = c.ValidateIngress(ing.DeepCopy()) }); m != "" {
		note(0, "validate", m, s)
	} else if nerr > 0 {
		out[0] = '1'
	}
	// arbitration against the prior state, then extension/generation, then deletion
	obj := ing.DeepCopy()
	var rejected bool
	m, s := guard(func() {
		ch, pr := c.Configuration().AddOrUpdateIngress(obj)
		_, _, we := k8s.VerifC17ChangeSummary(ch)
		rejected = we || k8s.VerifC17Rejected(pr)
	})
	if m != "" {
		note(1, "store", m, s)
	} else {
		if rejected {
			out[1] = '1'
		}
		if m, s := guard(func() { c.ExtendAll() }); m != "" {
			note(2, "extend", m, s)
		}
		if m, s := guard(func() { c.Configuration().DeleteIngress(ingKey) }); m != "" {
			note(3, "delete", m, s)
		}
	}
	// the worker's own path: add, then remove
	c2 := p.get(f, ctx, true)
	obj2 := ing.DeepCopy()
	if m, s := guard(func() { _ = c2.Sync(obj2, false); _ = c2.Sync(obj2, true) }); m != "" {
		note(4, "sync", m, s)
	}
	if len(mine) > 0 && p != nil {
		p.drop(f, ctx, false)
		p.drop(f, ctx, true)
		return runIngOnce(nil, ing, f, ctx, combo, panics)
	}
	*panics = append(*panics, mine...)
	return string(out)
}

// model-relevant flag settings of the Ingress pipeline, in the order of Model.all_iflags
var ingFlagCombos = []int{0, fCertMgr, fPlus, fPlus | fCertMgr}

// the flags the Ingress model does not read
var ingOtherBits = []int{fAppProtect, fDos, fInternal, fSnippets, fTLSPass}

func otherSetting(i int, bits []int) int {
	f := 0
	for b, bit := range bits {
		if i&(1<<b) != 0 {
			f |= bit
		}
	}
	return f
}

func runIngShape(p pool, id int, d string, thorough bool) Case {
	cs := Case{Fam: "ing", ID: id, Shape: d}
	ing, err := ingressOfShape(d)
	if err != nil {
		cs.Error = err.Error()
		return cs
	}
	nOther := 1 << len(ingOtherBits)
	settings := []int{id % nOther}
	if thorough {
		settings = settings[:0]
		for i := 0; i < nOther; i++ {
			settings = append(settings, i)
		}
	}
	cs.Others = len(settings)
	for si, oi := range settings {
		other := otherSetting(oi, ingOtherBits)
		var sb strings.Builder
		for _, fc := range ingFlagCombos {
			for ctx := 0; ctx < 4; ctx++ {
				combo := fmt.Sprintf("flags=%d ctx=%d", fc|other, ctx)
				sb.WriteString(runIngOnce(p, ing, fc|other, ctx, combo, &cs.Panics))
			}
		}
		if si == 0 {
			cs.Obs = sb.String()
		} else if sb.String() != cs.Obs {
			cs.FlagDiff = append(cs.FlagDiff, FlagDiff{Other: other, Obs: sb.String()})
		}
	}
	if len(cs.Panics) > 6 {
		cs.Panics = cs.Panics[:6]
	}
	return cs
}

// ---------------------------------------------------------------- driver

// allIngDescrs enumerates the Ingress shape space of coq/Shapes/Model.v (all_ing_shapes).
// The order is irrelevant: every case carries its code, Rocq decodes it, and the driver
// checks that the number of distinct codes equals the length of the Rocq enumeration.
func allIngDescrs() []string {
	ks := []string{"1", "2", "3"}
	https := []string{"0000", "1000"}
	for _, s := range []string{"0", "1", "2"} {
		for _, k := range ks {
			https = append(https, "2"+s+k+"0")
			for _, k2 := range ks {
				https = append(https, "3"+s+k+k2)
			}
		}
	}
	rules := []string{"000000"}
	for _, h := range https {
		rules = append(rules, "1"+h+"0")
		for _, r2 := range []string{"0", "1", "2", "3"} {
			rules = append(rules, "2"+h+r2)
		}
	}
	var out []string
	for _, d := range []string{"0", "1", "2", "3"} {
		for _, t := range []string{"0", "1"} {
			for _, m := range []string{"0", "1", "2", "3"} {
				for _, c := range []string{"0", "1"} {
					for _, a := range []string{"0", "1", "2"} {
						for _, r := range rules {
							out = append(out, "1"+d+t+m+c+a+r)
						}
					}
				}
			}
		}
	}
	return out
}

type job struct {
	fam   string
	id    int
	shape string
}

func runShape(p pool, j job, thorough bool) Case {
	var cs Case
	msg, site := guard(func() {
		switch j.fam {
		case "ing":
			cs = runIngShape(p, j.id, j.shape, thorough)
		default:
			cs = runCRDShape(p, j.fam, j.id, j.shape, thorough)
		}
	})
	if msg != "" { // a panic of the harness itself outside the guarded calls
		cs = Case{Fam: j.fam, ID: j.id, Shape: j.shape, Error: "harness panic: " + msg + " at " + site}
	}
	return cs
}

func main() {
	only := flag.String("only", "", "comma-separated families to run (default all)")
	prof := flag.String("cpuprofile", "", "")
	a := vh.ParseArgs()
	if *prof != "" {
		pf, _ := os.Create(*prof)
		pprof.StartCPUProfile(pf)
		defer pprof.StopCPUProfile()
	}
	w, err := vh.NewWriter(a.Out)
	if err != nil {
		fmt.Fprintln(os.Stderr, err)
		os.Exit(2)
	}
	defer w.Close()
	thorough := a.Tier == "thorough"
	debug.SetGCPercent(400)

	if a.Replay != "" {
		var cases []Case
		if err := vh.ReadReplay(a.Replay, &cases); err != nil {
			fmt.Fprintln(os.Stderr, err)
			os.Exit(2)
		}
		for _, c := range cases {
			if c.Fam == "rnd" {
				w.Emit(replayRandom(c))
			} else {
				w.Emit(runShape(nil, job{c.Fam, c.ID, c.Shape}, true))
			}
		}
		return
	}

	var jobs []job
	want := func(f string) bool { return *only == "" || strings.Contains(","+*only+",", ","+f+",") }
	if want("ing") {
		for _, d := range allIngDescrs() {
			jobs = append(jobs, job{"ing", len(jobs), d})
		}
	}
	for _, fam := range []string{"vs", "vsr", "ts", "pol", "gc"} {
		if want(fam) {
			for _, d := range allCRDDescrs(fam) {
				jobs = append(jobs, job{fam, len(jobs), d})
			}
		}
	}
	results := make([]Case, len(jobs))
	var wg sync.WaitGroup
	next := make(chan int, 1024)
	workers := runtime.NumCPU()
	if workers > 16 {
		workers = 16
	}
	for k := 0; k < workers; k++ {
		wg.Add(1)
		go func() {
			defer wg.Done()
			var p pool
			if !thorough {
				p = pool{}
			}
			for i := range next {
				results[i] = runShape(p, jobs[i], thorough)
			}
		}()
	}
	for i := range jobs {
		next <- i
	}
	close(next)
	wg.Wait()
	for i := range results {
		w.Emit(results[i])
	}
	// S: random stream
	rng := vh.NewRng(a.Seed)
	base := len(jobs)
	rres := make([]Case, a.N)
	next2 := make(chan int, 1024)
	for k := 0; k < workers; k++ {
		wg.Add(1)
		go func() {
			defer wg.Done()
			for i := range next2 {
				rres[i] = runRandom(base+i, rng.Fork(uint64(i)))
			}
		}()
	}
	if !want("rnd") {
		a.N = 0
		rres = nil
	}
	for i := 0; i < a.N; i++ {
		next2 <- i
	}
	close(next2)
	wg.Wait()
	for i := range rres {
		w.Emit(rres[i])
	}
}

// ---------------------------------------------------------------- secrets fixture

var (
	certOnce sync.Once
	certPEM  []byte
	keyPEM   []byte
)

func selfSigned() ([]byte, []byte) {
	certOnce.Do(func() {
		k, err := ecdsa.GenerateKey(elliptic.P256(), crand.Reader)
		if err != nil {
			panic(err)
		}
		tpl := &x509.Certificate{SerialNumber: big.NewInt(1), Subject: pkix.Name{CommonName: "c17.example.com"},
			NotBefore: t0, NotAfter: t0.Add(100 * 365 * 24 * time.Hour), IsCA: true, BasicConstraintsValid: true,
			KeyUsage: x509.KeyUsageCertSign | x509.KeyUsageDigitalSignature, DNSNames: []string{host1, host2}}
		der, err := x509.CreateCertificate(crand.Reader, tpl, tpl, &k.PublicKey, k)
		if err != nil {
			panic(err)
		}
		kb, err := x509.MarshalECPrivateKey(k)
		if err != nil {
			panic(err)
		}
		certPEM = pem.EncodeToMemory(&pem.Block{Type: "CERTIFICATE", Bytes: der})
		keyPEM = pem.EncodeToMemory(&pem.Block{Type: "EC PRIVATE KEY", Bytes: kb})
	})
	return certPEM, keyPEM
}

func fillSecrets(c *k8s.VerifC17) {
	crt, key := selfSigned()
	mk := func(name string, typ api_v1.SecretType, data map[string][]byte) {
		c.AddSecret(&api_v1.Secret{ObjectMeta: meta(name, 110), Type: typ, Data: data})
	}
	mk("tls-secret", api_v1.SecretTypeTLS, map[string][]byte{"tls.crt": crt, "tls.key": key})
	mk("ca-secret", "nginx.org/ca", map[string][]byte{"ca.crt": crt})
	mk("jwk-secret", "nginx.org/jwk", map[string][]byte{"jwk": []byte(`{"keys":[]}`)})
	mk("htpasswd-secret", "nginx.org/htpasswd", map[string][]byte{"htpasswd": []byte("u:$apr1$x$y")})
	mk("oidc-secret", "nginx.org/oidc", map[string][]byte{"client-secret": []byte("s3cret")})
	mk("apikey-secret", "nginx.org/apikey", map[string][]byte{"client1": []byte("key1"), "client2": []byte("key2")})
}

// ---------------------------------------------------------------- CRD shapes

func ip(i int) *int       { return &i }
func bp(b bool) *bool     { return &b }
func u16(i uint16) *uint16 { return &i }

func actionOf(d byte) *conf_v1.Action {
	red := &conf_v1.ActionRedirect{URL: "http://www.example.com", Code: 301}
	hdr := &conf_v1.ProxyRequestHeaders{Set: []conf_v1.Header{{Name: "X-A", Value: "b"}}}
	resp := &conf_v1.ProxyResponseHeaders{Hide: []string{"x-hide"}, Pass: []string{"x-pass"}, Ignore: []string{"Expires"},
		Add: []conf_v1.AddHeader{{Header: conf_v1.Header{Name: "X-B", Value: "c"}, Always: true}}}
	switch d {
	case '0':
		return nil
	case '1':
		return &conf_v1.Action{}
	case '2':
		return &conf_v1.Action{Pass: "u"}
	case '3':
		return &conf_v1.Action{Redirect: red}
	case '4':
		return &conf_v1.Action{Return: &conf_v1.ActionReturn{Code: 200, Type: "text/plain", Body: "ok"}}
	case '5':
		return &conf_v1.Action{Proxy: &conf_v1.ActionProxy{Upstream: "u"}}
	case '6':
		return &conf_v1.Action{Proxy: &conf_v1.ActionProxy{Upstream: "u", RequestHeaders: hdr, ResponseHeaders: resp}}
	case '7':
		hdr.Pass = bp(true)
		return &conf_v1.Action{Proxy: &conf_v1.ActionProxy{Upstream: "u", RequestHeaders: hdr, ResponseHeaders: resp}}
	case '8':
		return &conf_v1.Action{Pass: "u", Redirect: red}
	}
	return nil
}

func action2Of(d byte) *conf_v1.Action {
	switch d {
	case '1':
		return actionOf('2')
	case '2':
		return actionOf('4')
	}
	return nil
}

// routeOf: 12 digits a s sa sb m mc ma ms e er ed r (see coq/Shapes/Cases.v)
func routeOf(d string) conf_v1.Route {
	r := conf_v1.Route{Path: "/r", Action: actionOf(d[0])}
	switch d[1] {
	case '1':
		r.Splits = []conf_v1.Split{{Weight: 100, Action: actionOf('2')}}
	case '2':
		r.Splits = []conf_v1.Split{{Weight: 50, Action: action2Of(d[2])}, {Weight: 50, Action: action2Of(d[3])}}
	}
	if d[4] == '1' {
		m := conf_v1.Match{}
		if d[5] == '1' {
			m.Conditions = []conf_v1.Condition{{Header: "x-version", Value: "v2"}}
		}
		if d[6] == '1' {
			m.Action = actionOf('2')
		}
		switch d[7] {
		case '1':
			m.Splits = []conf_v1.Split{{Weight: 50, Action: actionOf('2')}, {Weight: 50, Action: actionOf('2')}}
		case '2':
			m.Splits = []conf_v1.Split{{Weight: 50, Action: nil}, {Weight: 50, Action: actionOf('2')}}
		}
		r.Matches = []conf_v1.Match{m}
	}
	if d[8] == '1' {
		e := conf_v1.ErrorPage{Codes: []int{502}}
		if d[9] == '1' {
			e.Return = &conf_v1.ErrorPageReturn{ActionReturn: conf_v1.ActionReturn{Code: 200, Type: "text/plain", Body: "sorry",
				Headers: []conf_v1.Header{{Name: "x-e", Value: "1"}}}}
		}
		if d[10] == '1' {
			e.Redirect = &conf_v1.ErrorPageRedirect{ActionRedirect: conf_v1.ActionRedirect{URL: "http://err.example.com", Code: 301}}
		}
		r.ErrorPages = []conf_v1.ErrorPage{e}
	}
	if d[11] == '1' {
		r.Route = "default/z-vsr"
	}
	return r
}

func upstreamOf(d byte) conf_v1.Upstream {
	u := conf_v1.Upstream{Name: "u", Service: "svc-a", Port: 80}
	switch d {
	case '1':
		u.HealthCheck = &conf_v1.HealthCheck{Enable: true, Path: "/healthz"}
	case '2':
		u.HealthCheck = &conf_v1.HealthCheck{Enable: true, Path: "/healthz", TLS: &conf_v1.UpstreamTLS{Enable: true}}
	case '3':
		u.SessionCookie = &conf_v1.SessionCookie{Enable: true, Name: "srv"}
	case '4':
		u.Queue = &conf_v1.UpstreamQueue{Size: 10, Timeout: "5s"}
	case '5':
		u.ProxyBuffers = &conf_v1.UpstreamBuffers{Number: 4, Size: "8k"}
	case '6':
		u.Backup, u.BackupPort = "svc-ext", u16(80)
	case '7':
		u.Backup = "svc-ext"
	case '8':
		u.BackupPort = u16(80)
	case '9':
		u.MaxFails, u.MaxConns, u.Keepalive, u.ProxyBuffering = ip(1), ip(10), ip(8), bp(true)
	}
	return u
}

var passRoute = "200000000000"

// vsOfShape: 14 digits 1 k payload
func vsOfShape(d string) (*conf_v1.VirtualServer, error) {
	if len(d) != 14 || d[0] != '1' {
		return nil, fmt.Errorf("bad VirtualServer shape code %q", d)
	}
	vs := &conf_v1.VirtualServer{ObjectMeta: meta("z-vs", 9), Spec: conf_v1.VirtualServerSpec{IngressClass: "nginx", Host: host1}}
	p := d[2:]
	switch d[1] {
	case '0':
	case '1':
		vs.Spec.Upstreams = []conf_v1.Upstream{upstreamOf('0')}
		vs.Spec.Routes = []conf_v1.Route{routeOf(p)}
	case '2':
		vs.Spec.Upstreams = []conf_v1.Upstream{upstreamOf('0')}
		vs.Spec.Routes = []conf_v1.Route{routeOf(passRoute)}
		if p[0] == '1' {
			t := &conf_v1.TLS{}
			if p[1] == '1' {
				t.Secret = "tls-secret"
			}
			switch p[2] {
			case '1':
				t.Redirect = &conf_v1.TLSRedirect{Enable: true}
			case '2':
				t.Redirect = &conf_v1.TLSRedirect{Enable: true, Code: ip(301), BasedOn: "scheme"}
			}
			if p[3] == '1' {
				t.CertManager = &conf_v1.CertManager{ClusterIssuer: "issuer"}
			}
			vs.Spec.TLS = t
		}
		if p[4] == '1' {
			vs.Spec.Listener = &conf_v1.VirtualServerListener{HTTP: "http-l", HTTPS: "https-l"}
		}
	case '3':
		vs.Spec.Upstreams = []conf_v1.Upstream{upstreamOf(p[0])}
		vs.Spec.Routes = []conf_v1.Route{routeOf(passRoute)}
	default:
		return nil, fmt.Errorf("bad VirtualServer shape code %q", d)
	}
	return vs, nil
}

func vsrOfShape(d string) (*conf_v1.VirtualServerRoute, error) {
	if len(d) != 14 || d[0] != '1' {
		return nil, fmt.Errorf("bad VirtualServerRoute shape code %q", d)
	}
	v := &conf_v1.VirtualServerRoute{ObjectMeta: meta("z-vsr", 9), Spec: conf_v1.VirtualServerRouteSpec{IngressClass: "nginx", Host: host1}}
	p := d[2:]
	switch d[1] {
	case '0':
	case '1':
		v.Spec.Upstreams = []conf_v1.Upstream{upstreamOf('0')}
		v.Spec.Subroutes = []conf_v1.Route{routeOf(p)}
	case '3':
		v.Spec.Upstreams = []conf_v1.Upstream{upstreamOf(p[0])}
		v.Spec.Subroutes = []conf_v1.Route{routeOf(passRoute)}
	default:
		return nil, fmt.Errorf("bad VirtualServerRoute shape code %q", d)
	}
	return v, nil
}

// tsOfShape: 8 digits 1 l h t u p s a
func tsOfShape(d string) (*conf_v1.TransportServer, error) {
	if len(d) != 8 || d[0] != '1' {
		return nil, fmt.Errorf("bad TransportServer shape code %q", d)
	}
	ts := &conf_v1.TransportServer{ObjectMeta: meta("z-ts", 9), Spec: conf_v1.TransportServerSpec{IngressClass: "nginx"}}
	switch d[1] {
	case '0':
		ts.Spec.Listener = conf_v1.TransportServerListener{Name: "tcp-l", Protocol: "TCP"}
	case '1':
		ts.Spec.Listener = conf_v1.TransportServerListener{Name: "udp-l", Protocol: "UDP"}
	case '2':
		ts.Spec.Listener = conf_v1.TransportServerListener{Name: conf_v1.TLSPassthroughListenerName, Protocol: conf_v1.TLSPassthroughListenerProtocol}
	}
	if d[2] == '1' {
		ts.Spec.Host = host2
	}
	switch d[3] {
	case '1':
		ts.Spec.TLS = &conf_v1.TransportServerTLS{}
	case '2':
		ts.Spec.TLS = &conf_v1.TransportServerTLS{Secret: "tls-secret"}
	}
	if d[4] != '0' {
		u := conf_v1.TransportServerUpstream{Name: "u", Service: "svc-a", Port: 80}
		switch d[4] {
		case '2':
			u.HealthCheck = &conf_v1.TransportServerHealthCheck{Enabled: true, Interval: "5s"}
		case '3':
			u.HealthCheck = &conf_v1.TransportServerHealthCheck{Enabled: true, Match: &conf_v1.TransportServerMatch{Send: "ping", Expect: "pong"}}
		}
		ts.Spec.Upstreams = []conf_v1.TransportServerUpstream{u}
	}
	switch d[5] {
	case '1':
		ts.Spec.UpstreamParameters = &conf_v1.UpstreamParameters{ConnectTimeout: "5s", NextUpstream: true, NextUpstreamTries: 2}
	case '2':
		ts.Spec.UpstreamParameters = &conf_v1.UpstreamParameters{UDPRequests: ip(1), UDPResponses: ip(1)}
	}
	if d[6] == '1' {
		ts.Spec.SessionParameters = &conf_v1.SessionParameters{Timeout: "30s"}
	}
	switch d[7] {
	case '1':
		ts.Spec.Action = &conf_v1.TransportServerAction{}
	case '2':
		ts.Spec.Action = &conf_v1.TransportServerAction{Pass: "u"}
	}
	return ts, nil
}

func polKindInto(spec *conf_v1.PolicySpec, k, x, y byte) {
	switch k {
	case '0':
		a := &conf_v1.AccessControl{}
		if x == '1' {
			a.Allow = []string{"10.0.0.0/8"}
		}
		if y == '1' {
			a.Deny = []string{"10.1.0.0/16"}
		}
		spec.AccessControl = a
	case '1':
		r := &conf_v1.RateLimit{Rate: "10r/s", Key: "${binary_remote_addr}", ZoneSize: "10M"}
		if x == '1' {
			r.Delay, r.Burst, r.DryRun, r.RejectCode = ip(1), ip(2), bp(true), ip(503)
		}
		switch y {
		case '1':
			r.Condition = &conf_v1.RateLimitCondition{Default: true}
		case '2':
			r.Condition = &conf_v1.RateLimitCondition{JWT: &conf_v1.JWTCondition{Claim: "sub", Match: "gold"}}
		}
		spec.RateLimit = r
	case '2':
		spec.JWTAuth = &conf_v1.JWTAuth{Realm: "realm", Secret: "jwk-secret"}
	case '3':
		spec.BasicAuth = &conf_v1.BasicAuth{Realm: "realm", Secret: "htpasswd-secret"}
	case '4':
		m := &conf_v1.IngressMTLS{ClientCertSecret: "ca-secret", VerifyClient: "on"}
		if x == '1' {
			m.VerifyDepth = ip(1)
		}
		spec.IngressMTLS = m
	case '5':
		m := &conf_v1.EgressMTLS{TLSSecret: "tls-secret"}
		if x == '1' {
			m.VerifyDepth = ip(2)
		}
		spec.EgressMTLS = m
	case '6':
		o := &conf_v1.OIDC{AuthEndpoint: "https://idp.example.com/auth", TokenEndpoint: "https://idp.example.com/token",
			JWKSURI: "https://idp.example.com/jwks", ClientID: "client", ClientSecret: "oidc-secret"}
		if x == '1' {
			o.ZoneSyncLeeway = ip(10)
		}
		spec.OIDC = o
	case '7':
		a := &conf_v1.APIKey{ClientSecret: "apikey-secret"}
		if x == '1' {
			s := &conf_v1.SuppliedIn{}
			if y == '2' || y == '3' {
				s.Header = []string{"X-API-Key"}
			}
			if y == '1' || y == '3' {
				s.Query = []string{"apikey"}
			}
			a.SuppliedIn = s
		}
		spec.APIKey = a
	case '8':
		w := &conf_v1.WAF{Enable: true}
		if x == '1' {
			w.SecurityLog = &conf_v1.SecurityLog{Enable: true, LogDest: "stderr"}
		}
		switch y {
		case '1':
			w.SecurityLogs = []*conf_v1.SecurityLog{}
		case '2':
			w.SecurityLogs = []*conf_v1.SecurityLog{{Enable: true, LogDest: "stderr"}}
		}
		spec.WAF = w
	}
}

// polOfShape: 5 digits 1 n kind x y
func polOfShape(d string) (*conf_v1.Policy, error) {
	if len(d) != 5 || d[0] != '1' {
		return nil, fmt.Errorf("bad Policy shape code %q", d)
	}
	p := &conf_v1.Policy{ObjectMeta: meta("z-pol", 9), Spec: conf_v1.PolicySpec{IngressClass: "nginx"}}
	switch d[1] {
	case '0':
	case '1':
		polKindInto(&p.Spec, d[2], d[3], d[4])
	case '2':
		polKindInto(&p.Spec, d[2], d[3], d[4])
		if d[2] == '0' {
			polKindInto(&p.Spec, '1', '0', '0')
		} else {
			polKindInto(&p.Spec, '0', '1', '0')
		}
	}
	return p, nil
}

func gcListeners() []conf_v1.Listener {
	return []conf_v1.Listener{{Name: "http-l", Port: 8080, Protocol: "HTTP"}, {Name: "https-l", Port: 8443, Protocol: "HTTP", Ssl: true},
		{Name: "tcp-l", Port: 9000, Protocol: "TCP"}, {Name: "udp-l", Port: 9001, Protocol: "UDP"}}
}

func gcObject(ls []conf_v1.Listener) *conf_v1.GlobalConfiguration {
	return &conf_v1.GlobalConfiguration{ObjectMeta: meta("nginx-configuration", 5), Spec: conf_v1.GlobalConfigurationSpec{Listeners: ls}}
}

func gcOfShape(d string) (*conf_v1.GlobalConfiguration, error) {
	if len(d) != 2 || d[0] != '1' {
		return nil, fmt.Errorf("bad GlobalConfiguration shape code %q", d)
	}
	tcp := conf_v1.Listener{Name: "tcp-l", Port: 9000, Protocol: "TCP"}
	switch d[1] {
	case '0':
		return gcObject(nil), nil
	case '1':
		return gcObject([]conf_v1.Listener{tcp}), nil
	case '2':
		return gcObject([]conf_v1.Listener{{Name: "bad", Port: 80, Protocol: "TCP"}}), nil
	case '3':
		return gcObject([]conf_v1.Listener{tcp, {Name: "tcp-l", Port: 9002, Protocol: "TCP"}}), nil
	case '4':
		return gcObject([]conf_v1.Listener{tcp, {Name: "udp-l", Port: 9001, Protocol: "UDP"}}), nil
	}
	return nil, fmt.Errorf("bad GlobalConfiguration shape code %q", d)
}

// --- prior states of the CRD families

func olderVS(withRouteRef bool, policies []conf_v1.PolicyReference) *conf_v1.VirtualServer {
	vs := &conf_v1.VirtualServer{ObjectMeta: meta("a-vs", 0), Spec: conf_v1.VirtualServerSpec{IngressClass: "nginx", Host: host1,
		Upstreams: []conf_v1.Upstream{upstreamOf('0')}}}
	if withRouteRef {
		vs.Spec.Routes = []conf_v1.Route{{Path: "/r", Route: "default/z-vsr"}}
	} else {
		vs.Spec.Routes = []conf_v1.Route{{Path: "/r", Action: &conf_v1.Action{Pass: "u"}, Policies: policies}}
	}
	if policies != nil {
		vs.Spec.Policies = policies
		vs.Spec.TLS = &conf_v1.TLS{Secret: "tls-secret"}
	}
	return vs
}

func olderTS() *conf_v1.TransportServer {
	return &conf_v1.TransportServer{ObjectMeta: meta("a-ts", 1), Spec: conf_v1.TransportServerSpec{IngressClass: "nginx",
		Listener:  conf_v1.TransportServerListener{Name: "tcp-l", Protocol: "TCP"},
		Upstreams: []conf_v1.TransportServerUpstream{{Name: "u", Service: "svc-a", Port: 80}},
		Action:    &conf_v1.TransportServerAction{Pass: "u"}}}
}

func listenerVS() *conf_v1.VirtualServer {
	vs := olderVS(false, nil)
	vs.Spec.Listener = &conf_v1.VirtualServerListener{HTTP: "http-l", HTTPS: "https-l"}
	return vs
}

// crdPrior returns the objects of prior state ctx of a family.
func crdPrior(fam string, ctx int) []interface{} {
	switch fam {
	case "vs":
		switch ctx {
		case 1:
			return []interface{}{olderVS(false, nil)}
		case 2:
			return []interface{}{gcObject(gcListeners())}
		}
	case "vsr":
		if ctx == 1 {
			return []interface{}{olderVS(true, nil)}
		}
	case "ts":
		if ctx == 1 {
			return []interface{}{gcObject(gcListeners())}
		}
	case "pol":
		return []interface{}{olderVS(false, []conf_v1.PolicyReference{{Name: "z-pol"}})}
	case "gc":
		if ctx == 1 {
			return []interface{}{olderTS(), listenerVS()}
		}
	}
	return nil
}

func store(c *k8s.VerifC17, o interface{}, viaSync bool) {
	if viaSync {
		_ = c.Sync(o, false)
		return
	}
	switch x := o.(type) {
	case *conf_v1.VirtualServer:
		c.Configuration().AddOrUpdateVirtualServer(x)
	case *conf_v1.VirtualServerRoute:
		c.Configuration().AddOrUpdateVirtualServerRoute(x)
	case *conf_v1.TransportServer:
		c.Configuration().AddOrUpdateTransportServer(x)
	case *conf_v1.GlobalConfiguration:
		_, _, _ = c.Configuration().AddOrUpdateGlobalConfiguration(x)
	case *networking.Ingress:
		c.Configuration().AddOrUpdateIngress(x)
	}
}

type famSpec struct {
	flagCombos []int // settings of the flags the model reads, in the model's order
	otherBits  []int
	nctx       int
	group      int // digits per (flag setting, prior state)
}

var famSpecs = map[string]famSpec{
	"vs":  {[]int{0, fCertMgr, fPlus, fPlus | fCertMgr}, []int{fAppProtect, fDos, fInternal, fSnippets, fTLSPass}, 3, 5},
	"vsr": {[]int{0, fPlus}, []int{fAppProtect, fDos, fInternal, fSnippets, fCertMgr, fTLSPass}, 2, 5},
	"ts":  {[]int{0, fTLSPass}, []int{fPlus, fAppProtect, fDos, fInternal, fSnippets, fCertMgr}, 2, 5},
	"pol": {[]int{0, fAppProtect, fPlus, fPlus | fAppProtect}, []int{fDos, fInternal, fSnippets, fCertMgr, fTLSPass}, 1, 3},
	"gc":  {[]int{0}, []int{fPlus, fAppProtect, fDos, fInternal, fSnippets, fCertMgr, fTLSPass}, 2, 5},
}

func crdObject(fam, d string) (interface{}, error) {
	switch fam {
	case "vs":
		return vsOfShape(d)
	case "vsr":
		return vsrOfShape(d)
	case "ts":
		return tsOfShape(d)
	case "pol":
		return polOfShape(d)
	case "gc":
		return gcOfShape(d)
	}
	return nil, fmt.Errorf("unknown family %q", fam)
}

func deepCopy(o interface{}) interface{} {
	switch x := o.(type) {
	case *conf_v1.VirtualServer:
		return x.DeepCopy()
	case *conf_v1.VirtualServerRoute:
		return x.DeepCopy()
	case *conf_v1.TransportServer:
		return x.DeepCopy()
	case *conf_v1.Policy:
		return x.DeepCopy()
	case *conf_v1.GlobalConfiguration:
		return x.DeepCopy()
	case *networking.Ingress:
		return x.DeepCopy()
	case *api_v1.Service:
		return x.DeepCopy()
	case *api_v1.Secret:
		return x.DeepCopy()
	case *discovery_v1.EndpointSlice:
		return x.DeepCopy()
	}
	return o
}

func crdCtl(fam string, f, ctx int, viaSync bool) *k8s.VerifC17 {
	c := newCtl(f)
	fillSecrets(c)
	for _, o := range crdPrior(fam, ctx) {
		store(c, o, viaSync)
	}
	return c
}

// runCRDOnce: validate, store, extend+generate, delete, sync for one object of a CRD family
// (Policy: validate, extend, sync).
func runCRDOnce(fam string, obj interface{}, f, ctx int, combo string, panics *[]PanicInfo) string {
	spec := famSpecs[fam]
	out := []byte(strings.Repeat("0", spec.group))
	note := func(stage int, name, msg, site string) {
		out[stage] = '2'
		*panics = append(*panics, PanicInfo{Combo: combo, Stage: name, Msg: msg, Site: site})
	}
	c := crdCtl(fam, f, ctx, false)
	syncStage := spec.group - 1
	if fam == "pol" {
		p := deepCopy(obj).(*conf_v1.Policy)
		var verr error
		if m, s := guard(func() { verr = c.ValidatePolicy(p) }); m != "" {
			note(0, "validate", m, s)
		} else if verr != nil {
			out[0] = '1'
		}
		_ = c.AddPolicy(p)
		if m, s := guard(func() {
			// the VirtualServer of the prior state references the policy: re-arbitrate and extend
			c.Configuration().AddOrUpdateVirtualServer(olderVS(false, []conf_v1.PolicyReference{{Name: "z-pol"}}))
			c.ExtendAll()
		}); m != "" {
			note(1, "extend", m, s)
		}
	} else {
		var verr error
		o1 := deepCopy(obj)
		if m, s := guard(func() {
			switch x := o1.(type) {
			case *conf_v1.VirtualServer:
				verr = c.VSValidator().ValidateVirtualServer(x)
			case *conf_v1.VirtualServerRoute:
				verr = c.VSValidator().ValidateVirtualServerRoute(x)
			case *conf_v1.TransportServer:
				verr = c.TSValidator().ValidateTransportServer(x)
			case *conf_v1.GlobalConfiguration:
				verr = c.GCValidator().ValidateGlobalConfiguration(x)
			}
		}); m != "" {
			note(0, "validate", m, s)
		} else if verr != nil {
			out[0] = '1'
		}
		o2 := deepCopy(obj)
		var rejected bool
		m, s := guard(func() {
			var ch []k8s.ResourceChange
			var pr []k8s.ConfigurationProblem
			var err error
			switch x := o2.(type) {
			case *conf_v1.VirtualServer:
				ch, pr = c.Configuration().AddOrUpdateVirtualServer(x)
			case *conf_v1.VirtualServerRoute:
				ch, pr = c.Configuration().AddOrUpdateVirtualServerRoute(x)
			case *conf_v1.TransportServer:
				ch, pr = c.Configuration().AddOrUpdateTransportServer(x)
			case *conf_v1.GlobalConfiguration:
				ch, pr, err = c.Configuration().AddOrUpdateGlobalConfiguration(x)
			}
			_, _, we := k8s.VerifC17ChangeSummary(ch)
			rejected = we || k8s.VerifC17Rejected(pr) || err != nil
		})
		if m != "" {
			note(1, "store", m, s)
		} else {
			if rejected {
				out[1] = '1'
			}
			if m, s := guard(func() { c.ExtendAll() }); m != "" {
				note(2, "extend", m, s)
			}
			if m, s := guard(func() {
				switch o2.(type) {
				case *conf_v1.VirtualServer:
					c.Configuration().DeleteVirtualServer("default/z-vs")
				case *conf_v1.VirtualServerRoute:
					c.Configuration().DeleteVirtualServerRoute("default/z-vsr")
				case *conf_v1.TransportServer:
					c.Configuration().DeleteTransportServer("default/z-ts")
				case *conf_v1.GlobalConfiguration:
					c.Configuration().DeleteGlobalConfiguration()
				}
			}); m != "" {
				note(3, "delete", m, s)
			}
		}
	}
	c2 := crdCtl(fam, f, ctx, true)
	o3 := deepCopy(obj)
	if m, s := guard(func() { _ = c2.Sync(o3, false); _ = c2.Sync(o3, true) }); m != "" {
		note(syncStage, "sync", m, s)
	}
	return string(out)
}

func runCRDShape(p pool, fam string, id int, d string, thorough bool) Case {
	cs := Case{Fam: fam, ID: id, Shape: d}
	obj, err := crdObject(fam, d)
	if err != nil {
		cs.Error = err.Error()
		return cs
	}
	adm := admitted(obj)
	cs.Admitted = &adm
	spec := famSpecs[fam]
	nOther := 1 << len(spec.otherBits)
	settings := []int{id % nOther}
	if thorough {
		settings = settings[:0]
		for i := 0; i < nOther; i++ {
			settings = append(settings, i)
		}
	}
	cs.Others = len(settings)
	for si, oi := range settings {
		other := otherSetting(oi, spec.otherBits)
		var sb strings.Builder
		for _, fc := range spec.flagCombos {
			for ctx := 0; ctx < spec.nctx; ctx++ {
				combo := fmt.Sprintf("flags=%d ctx=%d", fc|other, ctx)
				sb.WriteString(runCRDOnce(fam, obj, fc|other, ctx, combo, &cs.Panics))
			}
		}
		if si == 0 {
			cs.Obs = sb.String()
		} else if sb.String() != cs.Obs {
			cs.FlagDiff = append(cs.FlagDiff, FlagDiff{Other: other, Obs: sb.String()})
		}
	}
	if len(cs.Panics) > 6 {
		cs.Panics = cs.Panics[:6]
	}
	return cs
}

// allCRDDescrs enumerates the shape space of a CRD family (coq/Shapes/Model.v all_*_shapes).
func allCRDDescrs(fam string) []string {
	var routes []string
	for a := 0; a <= 8; a++ {
		for _, s := range []string{"000", "100", "200", "201", "202", "210", "211", "212", "220", "221", "222"} {
			ms := []string{"0000"}
			for _, c := range []string{"0", "1"} {
				for _, ac := range []string{"0", "1"} {
					for _, sp := range []string{"0", "1", "2"} {
						ms = append(ms, "1"+c+ac+sp)
					}
				}
			}
			for _, m := range ms {
				for _, e := range []string{"000", "100", "101", "110", "111"} {
					for _, r := range []string{"0", "1"} {
						routes = append(routes, fmt.Sprintf("%d", a)+s+m+e+r)
					}
				}
			}
		}
	}
	z := func(n int) string { return strings.Repeat("0", n) }
	var out []string
	switch fam {
	case "vs", "vsr":
		out = append(out, "10"+z(12))
		for _, r := range routes {
			out = append(out, "11"+r)
		}
		if fam == "vs" {
			for _, l := range []string{"0", "1"} {
				out = append(out, "120000"+l+z(7))
				for _, s := range []string{"0", "1"} {
					for _, rd := range []string{"0", "1", "2"} {
						for _, c := range []string{"0", "1"} {
							out = append(out, "121"+s+rd+c+l+z(7))
						}
					}
				}
			}
		}
		for u := 0; u <= 9; u++ {
			out = append(out, fmt.Sprintf("13%d", u)+z(11))
		}
	case "ts":
		for l := 0; l < 3; l++ {
			for h := 0; h < 2; h++ {
				for t := 0; t < 3; t++ {
					for u := 0; u < 4; u++ {
						for p := 0; p < 3; p++ {
							for s := 0; s < 2; s++ {
								for a := 0; a < 3; a++ {
									out = append(out, fmt.Sprintf("1%d%d%d%d%d%d%d", l, h, t, u, p, s, a))
								}
							}
						}
					}
				}
			}
		}
	case "pol":
		kinds := []string{"000", "001", "010", "011"}
		for _, p := range []string{"0", "1"} {
			for _, c := range []string{"0", "1", "2"} {
				kinds = append(kinds, "1"+p+c)
			}
		}
		kinds = append(kinds, "200", "300", "400", "410", "500", "510", "600", "610", "700", "710", "711", "712", "713")
		for _, l := range []string{"0", "1"} {
			for _, ls := range []string{"0", "1", "2"} {
				kinds = append(kinds, "8"+l+ls)
			}
		}
		out = append(out, "10000")
		for _, k := range kinds {
			out = append(out, "11"+k, "12"+k)
		}
	case "gc":
		out = []string{"10", "11", "12", "13", "14"}
	}
	return out
}

// ---------------------------------------------------------------- admissibility (stub)

func admitted(obj interface{}) bool { return true }

func runRandom(id int, r *vh.Rng) Case { return Case{Fam: "rnd", ID: id} }
func replayRandom(c Case) Case        { return c }
