(* C05 truth proof, part 16: a GlobalConfiguration event updates no Ingress *)
From Coq Require Import List ZArith String Ascii Bool Lia.
From NIC Require Import Base.SMap Arb.Types Arb.Model Arb.Spec Arb.WinsProofs Arb.InvProofs Arb.OwnerProofs
     Arb.ListenerProofs Arb.ClassProofs Arb.ChangeProofs Arb.ReportProofs Arb.ComposeProofs Arb.Cases Arb.ShadowProofs Arb.ShadowAttrs.
From NIC Require Import Arb.Truth01 Arb.Truth02 Arb.Truth03 Arb.Truth04 Arb.Truth05 Arb.Truth06 Arb.Truth07 Arb.Truth08 Arb.Truth09 Arb.Truth10 Arb.Truth11 Arb.Truth12 Arb.Truth13 Arb.Truth14 Arb.Truth15.
Import ListNotations.
Open Scope string_scope.
Open Scope Z_scope.

Lemma is_equal_ing_fields x y :
  ic_ing x = ic_ing y -> ic_master x = ic_master y -> ic_minions x = ic_minions y -> ic_valid_hosts x = ic_valid_hosts y ->
  is_equal (RIng x) (RIng y) = true.
Proof.
  intros E1 E2 E3 E4. pose proof (is_equal_refl (RIng x)) as R. unfold is_equal in *. rewrite <- E1, <- E2, <- E3, <- E4. exact R.
Qed.

Definition with_gc (o : objs) (g : option (list listener)) : objs := mkObjs (o_ings o) (o_vss o) (o_vsrs o) (o_tss o) g.

Lemma ing_same_gc c o g h ic' : cert_manager c = false -> objs_ok o ->
  lookup h (hosts_of_objs c (with_gc o g)) = Some (RIng ic') ->
  exists ic, lookup h (hosts_of_objs c o) = Some (RIng ic) /\ is_equal (RIng ic) (RIng ic') = true.
Proof.
  intros Hcm Hok Hh. assert (Hok1 : objs_ok (with_gc o g)) by exact Hok.
  unfold hosts_of_objs in *. cbn [with_gc o_ings o_vss o_vsrs o_tss o_gc] in Hh. rewrite b_hosts_lookup in Hh. rewrite b_hosts_lookup.
  destruct (lookup h (holders (all_claims c (o_ings o) (o_vss o) (o_tss o)))) as [y|]; [|discriminate].
  pose proof (b_res_key _ _ _ _ _ _ _ _ Hh) as Hk.
  assert (Hin1 : In (fst y) (keys (b_res (build c (o_ings o) (o_vss o) (o_vsrs o) (o_tss o) g)))) by (apply in_keys_lookup; congruence).
  apply (res_key_in c (with_gc o g) Hcm) in Hin1. cbn [with_gc o_ings o_vss o_vsrs o_tss o_gc] in Hin1.
  apply (res_key_in c o Hcm) in Hin1. apply in_keys_lookup in Hin1.
  destruct (lookup (fst y) (b_res (build c (o_ings o) (o_vss o) (o_vsrs o) (o_tss o) (o_gc o)))) as [r|] eqn:L; [|congruence].
  pose proof (b_res_key _ _ _ _ _ _ _ _ L) as Hk0.
  destruct r as [ic|vc|tc]; try (rewrite <- Hk0 in Hk; clash Hk).
  exists ic. split; [reflexivity|].
  pose proof (b_res_shape c _ _ (o_vsrs o) _ _ _ _ L) as [(k1 & St1) V1].
  pose proof (b_res_shape c _ _ (o_vsrs o) _ _ _ _ Hh) as [(k2 & St2) V2].
  pose proof (res_shape c Hcm o _ _ L) as [_ [M1 N1]].
  pose proof (res_shape c Hcm (with_gc o g) _ _ Hh) as [_ [M2 N2]]. cbn [with_gc o_ings] in N2.
  destruct Hok as (W1 & W2 & W3 & W4 & K1 & K2 & K3 & K4).
  assert (E : ic_ing ic = ic_ing ic').
  { apply (same_stored (fun i => mkey (i_meta i)) (o_ings o) k1 k2 _ _ W1 K1 St1 St2).
    rewrite <- Hk0 in Hk. unfold rkey in Hk. cbn [kind_prefix res_meta] in Hk. apply append_inj_l in Hk. congruence. }
  apply is_equal_ing_fields; [exact E|congruence|rewrite N1, N2, E; reflexivity|rewrite V1, V2, E; reflexivity].
Qed.

Lemma updated_ing old new h o n : wf new -> In h (updated_hosts old new) -> lookup h old = Some o -> lookup h new = Some (RIng n) ->
  is_equal o (RIng n) = false.
Proof.
  intros W Hin Ho Hn. unfold updated_hosts in Hin. apply in_flat_map in Hin. destruct Hin as ([h' nr] & Hin & Hf). cbn [fst snd] in Hf.
  destruct (lookup h' old) as [orr|] eqn:Eo; [|destruct Hf].
  destruct (negb (is_equal orr nr)) eqn:Eq.
  - destruct Hf as [<-|[]]. apply In_lookup in Hin; [|exact W]. rewrite Hn in Hin. inversion Hin; subst nr. rewrite Ho in Eo. inversion Eo; subst orr.
    apply negb_true_iff in Eq. exact Eq.
  - exfalso. destruct nr as [x|x|x]; [destruct orr; destruct Hf| |destruct orr; destruct Hf].
    assert (h' = h).
    { destruct orr as [y|y|y]; try (destruct Hf; fail). repeat (apply in_app_or in Hf; destruct Hf as [Hf|Hf]);
        repeat match goal with H : In _ (if ?b then _ else _) |- _ => destruct b; [destruct H as [H|[]]; exact H|destruct H] end. }
    subst h'. apply In_lookup in Hin; [|exact W]. rewrite Hn in Hin. discriminate.
Qed.

Lemma create_changes_res rk removed updated added old new ch :
  In ch (create_changes rk removed updated added old new) ->
  (exists h, lookup h old = Some (c_res ch)) \/ (exists h, lookup h new = Some (c_res ch)).
Proof.
  unfold create_changes. intros Hin.
  apply in_app_or in Hin. destruct Hin as [Hin|Hin]; apply in_app_or in Hin; destruct Hin as [Hin|Hin];
    apply in_filter_map in Hin; destruct Hin as (h & _ & Hf).
  - destruct (lookup h old) eqn:E; inversion Hf; subst. left. eauto.
  - destruct (lookup h old) as [o0|] eqn:E; [|discriminate]. destruct (lookup h new) as [n0|]; [|discriminate].
    destruct (negb (String.eqb (rk o0) (rk n0))); inversion Hf; subst. left. eauto.
  - destruct (lookup h new) as [r|] eqn:Hl; inversion Hf; subst. right. eauto.
  - destruct (lookup h new) as [r|] eqn:Hl; inversion Hf; subst. right. eauto.
Qed.

Lemma listeners_batch_ts s ch : In ch (snd (fst (rebuild_listeners s))) -> exists tc, c_res ch = RTS tc.
Proof.
  unfold rebuild_listeners. cbn [fst snd]. intros Hin. apply squash_in in Hin. apply create_changes_res in Hin.
  destruct Hin as [(h & Hh)|(h & Hh)]; rewrite lookup_smap_map in Hh;
    match type of Hh with option_map _ ?x = _ => destruct x as [tc|] end; try discriminate; cbn in Hh; inversion Hh; eauto.
Qed.

Lemma hosts_batch_no_ing c s : cert_manager c = false -> objs_ok (objs_of_state s) ->
  (forall h ic', lookup h (hosts_of_objs c (objs_of_state s)) = Some (RIng ic') ->
                 exists ic, lookup h (hosts s) = Some (RIng ic) /\ is_equal (RIng ic) (RIng ic') = true) ->
  forall ch ic, In ch (snd (fst (rebuild_hosts c s))) -> c_op ch = AddOrUpdate -> c_res ch <> RIng ic.
Proof.
  intros Hcm Hok Hsame ch ic Hin Hop Hr.
  unfold rebuild_hosts in Hin. cbn [fst snd] in Hin.
  set (b := build c (ings s) (vss s) (vsrs s) (tss s) (gc s)) in *.
  apply in_repoint in Hin. destruct Hin as (c0 & Hc0 & Hop0 & Hres).
  apply squash_in in Hc0. rewrite Hop in Hop0. symmetry in Hop0.
  (* c0 is an update or an add of a host whose new value is an Ingress *)
  unfold create_changes in Hc0. apply in_app_or in Hc0. destruct Hc0 as [Hc0|Hc0].
  - apply in_app_or in Hc0. destruct Hc0 as [Hc0|Hc0]; apply in_filter_map in Hc0; destruct Hc0 as (h & _ & Hf).
    + destruct (lookup h (hosts s)); inversion Hf; subst; discriminate.
    + destruct (lookup h (hosts s)) as [o0|]; [|discriminate]. destruct (lookup h (b_hosts b)) as [n0|]; [|discriminate].
      destruct (negb (String.eqb (rkey o0) (rkey n0))); inversion Hf; subst; discriminate.
  - assert (G : exists h, lookup h (b_hosts b) = Some (c_res c0) /\ (In h (updated_hosts (hosts s) (b_hosts b)) \/ In h (added_keys (hosts s) (b_hosts b)))).
    { apply in_app_or in Hc0. destruct Hc0 as [Hc0|Hc0]; apply in_filter_map in Hc0; destruct Hc0 as (h & Hh & Hf);
        destruct (lookup h (b_hosts b)) as [r|] eqn:Hl; inversion Hf; subst; exists h; auto. }
    destruct G as (h & Hn & Hwhy).
    pose proof (b_hosts_res _ _ _ _ _ _ _ _ Hn) as Hrn. unfold ckey in Hres. fold b in Hrn. rewrite Hrn in Hres. rewrite Hres in Hr.
    rewrite Hr in Hn. destruct (Hsame h ic Hn) as (ic0 & Ho & Heq).
    destruct Hwhy as [Hu|Ha].
    + pose proof (updated_ing _ _ h _ _ (wf_b_hosts _ _ _ _ _ _) Hu Ho Hn). congruence.
    + apply in_added in Ha. destruct Ha as [_ Ha]. congruence.
Qed.

Lemma gc_batch_no_ing c s g : cert_manager c = false -> fn_inv c s -> objs_ok (objs_of_state s) ->
  forall ch ic, In ch (snd (fst (rebuild_gc c (set_gc s g)))) -> c_op ch = AddOrUpdate -> c_res ch <> RIng ic.
Proof.
  intros Hcm [Hh Hl] Hok ch ic Hin Hop. unfold rebuild_gc in Hin.
  pose proof (listeners_batch_ts (set_gc s g)) as HL. pose proof (hosts_rebuild_listeners (set_gc s g)) as Hh1. pose proof (objs_rebuild_listeners (set_gc s g)) as Ho1.
  destruct (rebuild_listeners (set_gc s g)) as [[s1 c1] p1]. cbn [fst snd] in *.
  pose proof (hosts_batch_no_ing c s1 Hcm) as HH.
  destruct (rebuild_hosts c s1) as [[s2 c2] p2]. cbn [fst snd] in *.
  unfold order_deletes_first in Hin. apply in_app_or in Hin.
  assert (Hin' : In ch c1 \/ In ch c2).
  { destruct Hin as [Hin|Hin]; apply filter_In in Hin; destruct Hin as [Hin _]; apply in_app_or in Hin; exact Hin. }
  destruct Hin' as [H1|H2].
  - destruct (HL ch H1) as (tc & E). congruence.
  - apply (HH); [rewrite Ho1; exact Hok| |exact H2|exact Hop].
    intros h ic' Hn. rewrite Ho1 in Hn. rewrite Hh1. cbn [set_gc hosts]. rewrite Hh.
    apply (ing_same_gc c (objs_of_state s) g h ic' Hcm Hok). exact Hn.
Qed.

Lemma gc_step_no_ing c es e : cert_manager c = false -> is_gc_event e = true ->
  forall ch ic, In ch (batch c es e) -> c_op ch = AddOrUpdate -> c_res ch <> RIng ic.
Proof.
  intros Hcm Hg ch ic. unfold batch. destruct e; try discriminate Hg; cbn [step].
  - apply (gc_batch_no_ing c (run c es) (Some ls) Hcm (run_fn_inv c es) (objs_ok_run c es)).
  - apply (gc_batch_no_ing c (run c es) None Hcm (run_fn_inv c es) (objs_ok_run c es)).
Qed.
