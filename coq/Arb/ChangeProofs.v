(* C03 (part): within every batch returned by every entry point, for every state, removals precede
   additions/updates.  C05 (part): delta suppression of problems is sound. *)
From Coq Require Import List ZArith String Ascii Bool Lia.
From NIC Require Import Base.SMap Arb.Types Arb.Model Arb.Spec Arb.InvProofs Arb.ClassProofs Arb.Cases.
Import ListNotations.
Open Scope Z_scope.

Definition all_deletes (cs : list change) : Prop := forall c, In c cs -> c_op c = Delete.
Definition all_updates (cs : list change) : Prop := forall c, In c cs -> c_op c = AddOrUpdate.

Lemma deletes_first_updates us : all_updates us -> forall b, deletes_first us b = true.
Proof.
  induction us as [|u us IH]; intros Hu b; cbn; [reflexivity|].
  rewrite (Hu u) by (left; reflexivity). apply IH. intros c Hc. apply Hu. right; exact Hc.
Qed.

Lemma deletes_first_app ds us :
  all_deletes ds -> all_updates us -> deletes_first (ds +++ us) false = true.
Proof.
  intros Hd Hu. induction ds as [|d ds IH]; cbn.
  - apply deletes_first_updates. exact Hu.
  - rewrite (Hd d) by (left; reflexivity). cbn. apply IH. intros c Hc. apply Hd. right; exact Hc.
Qed.

Lemma squash_go_ops all_ cs : forall seen ds us,
  squash_go all_ cs seen = (ds, us) -> all_deletes ds /\ all_updates us.
Proof.
  induction cs as [|c cs IH]; intros seen ds us H; cbn in H.
  - inversion H. split; intros ? [].
  - destruct (existsb (String.eqb (rkey (c_res c))) seen); [eauto|].
    destruct (squash_go all_ cs (rkey (c_res c) :: seen)) as [ds0 us0] eqn:Hr.
    destruct (IH _ _ _ Hr) as [Hd Hu].
    destruct (last_change_for (rkey (c_res c)) all_ None) as [s|]; [|inversion H; subst; auto].
    destruct (c_op s) eqn:Hop; inversion H; subst; split; auto.
    + intros x [<-|Hx]; auto.
    + intros x [<-|Hx]; auto.
Qed.

Lemma squash_deletes_first cs : deletes_first (squash cs) false = true.
Proof.
  unfold squash. destruct (squash_go cs cs []) as [ds us] eqn:H.
  destruct (squash_go_ops _ _ _ _ _ H). apply deletes_first_app; assumption.
Qed.

Lemma deletes_first_map_same_op (f : change -> change) cs b :
  (forall c, c_op (f c) = c_op c) -> deletes_first (map f cs) b = deletes_first cs b.
Proof.
  intros Hf. revert b. induction cs as [|c cs IH]; intros b; cbn; [reflexivity|].
  rewrite Hf. destruct (c_op c); rewrite IH; reflexivity.
Qed.

Lemma repoint_deletes_first res cs b : deletes_first (repoint res cs) b = deletes_first cs b.
Proof.
  unfold repoint. apply deletes_first_map_same_op. intros c. destruct (lookup (rkey (c_res c)) res); reflexivity.
Qed.

Lemma attach_error_ops k cs cs' b : attach_error k cs = Some cs' -> deletes_first cs' b = deletes_first cs b.
Proof.
  revert cs' b. induction cs as [|c cs IH]; intros cs' b H; cbn in H; [discriminate|].
  destruct (String.eqb (rkey (c_res c)) k).
  - inversion H; subst. reflexivity.
  - destruct (attach_error k cs) as [r|] eqn:Hr; [|discriminate]. inversion H; subst. cbn.
    destruct (c_op c); rewrite (IH r); reflexivity.
Qed.

Lemma order_deletes_first_ok cs : deletes_first (order_deletes_first cs) false = true.
Proof.
  unfold order_deletes_first. apply deletes_first_app.
  - intros c Hc. apply filter_In in Hc. destruct Hc as [_ H]. unfold is_delete in H. destruct (c_op c); [reflexivity|discriminate].
  - intros c Hc. apply filter_In in Hc. destruct Hc as [_ H]. unfold is_delete in H. destruct (c_op c); [discriminate|reflexivity].
Qed.

Definition batch_of (out : state * list change * list problem) : list change := snd (fst out).

Lemma rebuild_hosts_deletes_first c s : deletes_first (batch_of (rebuild_hosts c s)) false = true.
Proof. unfold rebuild_hosts, batch_of. cbn. rewrite repoint_deletes_first. apply squash_deletes_first. Qed.

Lemma rebuild_listeners_deletes_first s : deletes_first (batch_of (rebuild_listeners s)) false = true.
Proof. unfold rebuild_listeners, batch_of. cbn. apply squash_deletes_first. Qed.

Lemma rebuild_ts_deletes_first c s : deletes_first (batch_of (rebuild_ts c s)) false = true.
Proof.
  unfold rebuild_ts. pose proof (rebuild_listeners_deletes_first s) as Hl.
  destruct (rebuild_listeners s) as [[s1 c1] p1]. destruct (tls_passthrough c); [|exact Hl].
  destruct (rebuild_hosts c s1) as [[s2 c2] p2]. unfold batch_of. cbn. apply order_deletes_first_ok.
Qed.

Lemma rebuild_gc_deletes_first c s : deletes_first (batch_of (rebuild_gc c s)) false = true.
Proof.
  unfold rebuild_gc. destruct (rebuild_listeners s) as [[s1 c1] p1].
  destruct (rebuild_hosts c s1) as [[s2 c2] p2]. unfold batch_of. cbn. apply order_deletes_first_ok.
Qed.

Lemma wve_deletes_first b k u out :
  deletes_first (batch_of out) false = true -> deletes_first (batch_of (with_validation_error b k u out)) false = true.
Proof.
  destruct out as [[s cs] ps]. unfold with_validation_error, batch_of. cbn. intros H. destruct b; [|exact H].
  destruct (attach_error k cs) as [cs'|] eqn:Ha; cbn; [|exact H]. rewrite (attach_error_ops _ _ _ _ Ha). exact H.
Qed.

(* C03: in the batch returned for ANY event in ANY state every removal precedes every addition or update *)
Theorem removals_first c s e : deletes_first (batch_of (step c s e)) false = true.
Proof.
  destruct e; cbn [step].
  - apply wve_deletes_first, rebuild_hosts_deletes_first.
  - destruct (mem key (ings s)); [apply rebuild_hosts_deletes_first|reflexivity].
  - apply wve_deletes_first, rebuild_hosts_deletes_first.
  - destruct (mem key (vss s)); [apply rebuild_hosts_deletes_first|reflexivity].
  - pose proof (rebuild_hosts_deletes_first c (set_vsrs s (if cls && valid then insert (mkey (r_meta r)) r (vsrs s) else remove (mkey (r_meta r)) (vsrs s)))) as H.
    destruct (rebuild_hosts c _) as [[s2 cs] ps]. exact H.
  - destruct (mem key (vsrs s)); [apply rebuild_hosts_deletes_first|reflexivity].
  - apply wve_deletes_first, rebuild_ts_deletes_first.
  - destruct (mem key (tss s)); [apply rebuild_ts_deletes_first|reflexivity].
  - apply rebuild_gc_deletes_first.
  - apply rebuild_gc_deletes_first.
Qed.

(* squashing does not change the effect of a deletes-first batch on the set of applied keys:
   a key is applied after the squashed batch iff its last change is an addOrUpdate, or it has no change
   and was applied before *)
Lemma last_change_for_some k cs acc c : last_change_for k cs acc = Some c -> In c cs \/ acc = Some c.
Proof.
  revert acc. induction cs as [|x cs IH]; intros acc H; cbn in H; [auto|].
  apply IH in H. destruct H as [H|H]; [left; right; exact H|].
  destruct (String.eqb (rkey (c_res x)) k); [inversion H; left; left; reflexivity|auto].
Qed.

(* ---------- C05: delta suppression of problems ---------- *)

(* what the cluster has been told through the problem channel: the last delta entry per object *)
Fixpoint tell (acc : smap problem) (delta : list problem) : smap problem :=
  match delta with
  | [] => acc
  | p :: r => tell (insert (p_obj p) p acc) r
  end.

Definition told (acc cur : smap problem) : Prop :=
  forall k p, lookup k cur = Some p -> exists p', lookup k acc = Some p' /\ problem_eqb p p' = true.

Definition keyed_by_obj (m : smap problem) : Prop := forall k p, In (k, p) m -> p_obj p = k.

Lemma tell_lookup delta : forall acc k,
  (forall p, In p delta -> p_obj p <> k) -> lookup k (tell acc delta) = lookup k acc.
Proof.
  induction delta as [|d delta IH]; intros acc k H; cbn [tell]; [reflexivity|].
  rewrite IH by (intros; apply H; right; assumption).
  apply lookup_insert_neq. intros E. apply (H d); [left; reflexivity|congruence].
Qed.

Lemma problem_eqb_sym a b : problem_eqb a b = problem_eqb b a.
Proof. unfold problem_eqb. rewrite (String.eqb_sym (p_reason a)), (String.eqb_sym (p_msg a)), (String.eqb_sym (p_uid a)). destruct (p_is_error a), (p_is_error b); reflexivity. Qed.

Lemma problem_eqb_trans a b c : problem_eqb a b = true -> problem_eqb b c = true -> problem_eqb a c = true.
Proof.
  unfold problem_eqb. intros H1 H2.
  apply andb_true_iff in H1. destruct H1 as [H1 Hu1]. apply andb_true_iff in H1. destruct H1 as [H1 Hm1]. apply andb_true_iff in H1. destruct H1 as [He1 Hr1].
  apply andb_true_iff in H2. destruct H2 as [H2 Hu2]. apply andb_true_iff in H2. destruct H2 as [H2 Hm2]. apply andb_true_iff in H2. destruct H2 as [He2 Hr2].
  apply eqb_prop in He1. apply eqb_prop in He2. apply String.eqb_eq in Hr1, Hr2, Hm1, Hm2, Hu1, Hu2.
  rewrite He1, He2, Hr1, Hr2, Hm1, Hm2, Hu1, Hu2, eqb_reflx, !String.eqb_refl. reflexivity.
Qed.

Lemma in_problem_delta new old p :
  In p (problem_delta new old) <->
  exists k, In (k, p) new /\ match lookup k old with None => True | Some o => problem_eqb p o = false end.
Proof.
  unfold problem_delta. rewrite in_filter_map. split.
  - intros ([k q] & Hin & Hf). cbn [fst snd] in Hf. exists k.
    destruct (lookup k old) as [o|]; [destruct (problem_eqb q o) eqn:He; [discriminate|]|]; inversion Hf; subst; auto.
  - intros (k & Hin & Hm). exists (k, p). split; [exact Hin|]. cbn [fst snd].
    destruct (lookup k old) as [o|]; [rewrite Hm|]; reflexivity.
Qed.

Lemma tell_all_same delta : forall acc k p,
  (forall q, In q delta -> p_obj q = k -> q = p) -> In p delta -> p_obj p = k ->
  lookup k (tell acc delta) = Some p.
Proof.
  induction delta as [|d delta IH]; intros acc k p Hsame Hin Hk; [destruct Hin|].
  cbn [tell]. destruct (in_dec problem_dec p delta) as [Hr|Hr].
  - apply IH; auto. intros q Hq. apply Hsame. right; exact Hq.
  - destruct Hin as [->|Hin]; [|contradiction].
    rewrite tell_lookup.
    + rewrite Hk. apply lookup_insert_eq.
    + intros q Hq Hqk. apply Hr. rewrite <- (Hsame q (or_intror Hq) Hqk). exact Hq.
Qed.

(* one round of delta suppression: if everything in [old] had been told, then after telling
   [problem_delta new old] everything in [new] has been told -- including problems that had been
   dropped from the set and come back *)
Lemma delta_sound acc old new :
  wf new -> keyed_by_obj new -> told acc old -> told (tell acc (problem_delta new old)) new.
Proof.
  intros W K Hold k p Hl.
  assert (Hin : In (k, p) new) by (apply lookup_In; exact Hl).
  assert (Hk : p_obj p = k) by (apply K; exact Hin).
  assert (Huniq : forall q, In q (problem_delta new old) -> p_obj q = k -> q = p).
  { intros q Hq Hqk. apply in_problem_delta in Hq. destruct Hq as (k' & Hq & _).
    assert (k' = k) by (rewrite <- (K _ _ Hq); exact Hqk). subst k'.
    apply (In_lookup _ _ _ W) in Hq. congruence. }
  destruct (in_dec problem_dec p (problem_delta new old)) as [Hd|Hd].
  - exists p. split; [apply tell_all_same; auto|apply problem_eqb_refl].
  - assert (Hno : forall q, In q (problem_delta new old) -> p_obj q <> k).
    { intros q Hq Hqk. apply Hd. rewrite <- (Huniq q Hq Hqk). exact Hq. }
    rewrite (tell_lookup _ _ _ Hno).
    destruct (lookup k old) as [o|] eqn:Ho.
    + destruct (problem_eqb p o) eqn:He.
      * destruct (Hold _ _ Ho) as (p' & Hp' & Hq). exists p'. split; [exact Hp'|eapply problem_eqb_trans; eauto].
      * exfalso. apply Hd. apply in_problem_delta. exists k. rewrite Ho. auto.
    + exfalso. apply Hd. apply in_problem_delta. exists k. rewrite Ho. auto.
Qed.

(* the host-side problem channel along a whole history *)
Definition host_delta (c : cfg) (s : state) (e : event) : list problem :=
  problem_delta (hprobs (step_state c s e)) (hprobs s).

Fixpoint told_hosts (c : cfg) (s : state) (acc : smap problem) (es : list event) : smap problem * state :=
  match es with
  | [] => (acc, s)
  | e :: r => told_hosts c (step_state c s e) (tell acc (host_delta c s e)) r
  end.

Lemma keyed_of_list (l : list (string * problem)) :
  (forall k p, In (k, p) l -> p_obj p = k) -> keyed_by_obj (of_list l).
Proof.
  intros H k p Hin. apply H. apply of_list_lookup_in. apply In_lookup; [apply wf_of_list|exact Hin].
Qed.

Lemma hprobs_keyed c o : keyed_by_obj (hprobs_of_objs c o).
Proof.
  unfold hprobs_of_objs. apply keyed_of_list. intros k p Hin.
  apply in_app_or in Hin. destruct Hin as [Hin|Hin]; [|apply in_app_or in Hin; destruct Hin as [Hin|Hin]].
  - unfold problems_no_host in Hin. apply in_filter_map in Hin. destruct Hin as ([k0 r] & _ & Hf). cbn [fst snd] in Hf.
    destruct r as [x|x|x]; match type of Hf with (if ?b then _ else _) = _ => destruct b end; inversion Hf; reflexivity.
  - unfold problems_orphan_minions in Hin. apply in_filter_map in Hin. destruct Hin as ([k0 i] & _ & Hf). cbn [snd] in Hf.
    destruct (is_minion i); [|discriminate].
    match type of Hf with (if ?b then _ else _) = _ => destruct b end; inversion Hf; reflexivity.
  - unfold problems_vsrs in Hin. apply in_filter_map in Hin. destruct Hin as ([k0 r] & _ & Hf). cbn [snd] in Hf.
    destruct (lookup (r_host r) _) as [[x|x|x]|]; try (inversion Hf; reflexivity).
    match type of Hf with (if ?b then _ else _) = _ => destruct b end; inversion Hf; reflexivity.
Qed.

(* C05 (delta suppression is sound): for every history, every problem that is currently standing
   in hostProblems has been sent, and it is the most recent problem sent about that object *)
Theorem standing_problems_were_told c es :
  let '(acc, s) := told_hosts c init [] es in told acc (hprobs s) /\ s = run c es.
Proof.
  assert (G : forall l s acc, full_inv c s -> told acc (hprobs s) ->
              let '(acc', s') := told_hosts c s acc l in told acc' (hprobs s') /\ s' = fold_left (step_state c) l s).
  { induction l as [|e l IH]; intros s acc Hinv Ht; cbn [told_hosts fold_left]; [auto|].
    apply IH; [apply full_inv_step; exact Hinv|].
    unfold host_delta. pose proof (full_inv_step c s e Hinv) as [[_ _] [Hp _]].
    apply delta_sound; auto; rewrite Hp; [apply wf_of_list|apply hprobs_keyed]. }
  apply (G es init []); [apply full_inv_init|]. intros k p H. discriminate.
Qed.

Lemma rebuild_idem_both c s :
  full_inv c s -> rebuild_hosts c s = (s, [], []) /\ rebuild_listeners s = (s, [], []).
Proof. intros H. exact (conj (rebuild_hosts_idem c s H) (rebuild_listeners_idem c s H)). Qed.
