(* C12 -- executable model of the reload gate of internal/configs/configurator.go and of the
   batch logic of LoadBalancerController.sync (internal/k8s/controller.go).  No proofs here.

   Observation point: the nginx.Manager boundary.  An operation of the Configurator produces an
   ordered log of events (file writes with the content-based changed flag of
   configContentsChanged, deletes, Reload calls, NGINX Plus API calls) and an error class.
   External behaviour is explicit: the result of the i-th Reload call and of the i-th API call
   are total functions [ro], [ao] : nat -> bool (true = success), universally quantified in
   every theorem. *)
From Coq Require Import List ZArith String Bool Arith.
From NIC Require Import Base.SMap.
Import ListNotations.
Open Scope string_scope.
Open Scope list_scope.

(* ---------- files NGINX reads, as the Manager names them ---------- *)
(* FSecret: a secret file that a configuration file on disk names by its literal path (NGINX reads it
   when it loads the configuration: MGMT licence / client certificate / trusted CA, every TLS
   secret when -ssl-dynamic-reload is off).  FLazy: a secret file no configuration file names
   literally (referenced through $secret_dir_path and loaded per handshake, or not referenced at
   all): writing it is not a change that needs a reload. *)
Inductive fk := FMain | FConf | FStream | FTls | FSecret | FLazy.

Definition fkey (k : fk) (name : string) : string :=
  (match k with FMain => "m:" | FConf => "c:" | FStream => "s:" | FTls => "t:" | FSecret | FLazy => "x:" end ++ name)%string.

Definition needs_reload (k : fk) : bool := match k with FLazy => false | _ => true end.

Inductive ev :=
| EWrite (k : fk) (name : string) (changed : bool)   (* Create*Config; changed = content differs from the file *)
| EDelete (k : fk) (name : string) (existed : bool)  (* Delete*Config *)
| EReload (endp : bool) (ok : bool)                   (* Manager.Reload(isEndpointsUpdate) and its result *)
| EApi (stream : bool) (ups : string) (ok : bool)     (* Update(Stream)ServersInPlus and its result *)
| EEnable                                             (* marker: the public EnableReloads() was called *)
| EDisable.                                           (* marker: the public DisableReloads() was called *)

(* ---------- resources as the gate sees them ---------- *)
Inductive rk := KIng | KMerge | KVS | KTS.

Definition fk_of (k : rk) : fk := match k with KTS => FStream | _ => FConf end.
Definition is_stream (k : rk) : bool := match k with KTS => true | _ => false end.

Record res := {
  r_kind : rk;
  r_name : string;            (* file name: ns-name, vs_ns_name, ts_ns_name *)
  r_ver : Z;                  (* identity of the generated content (spec variant, endpoints variant) *)
  r_apis : list (list string);(* upstreams pushed through the Plus API, in groups: an API failure
                                 abandons the rest of its group (one group per Ingress/VS/TS,
                                 one group per minion of a mergeable Ingress) *)
  r_weights : nat;            (* number of two-way-split weight updates (DynamicWeightChangesReload) *)
  r_pt : option Z             (* TransportServer on the TLS passthrough listener: identity of its host (None: not passthrough) *)
}.

Inductive op :=
| OAdd (r : res)                               (* AddOrUpdateIngress/MergeableIngress/VirtualServer/TransportServer *)
| OAddVSs (rs : list res)                      (* AddOrUpdateVirtualServers *)
| OAddResources (rs : list res) (reloadIfUnchanged : bool)
| ODelete (k : rk) (name : string) (skip : bool) (* DeleteIngress/DeleteVirtualServer(key, skipReload); DeleteTransportServer (never skips) *)
| OEndpoints (k : rk) (rs : list res)          (* UpdateEndpoints / ...MergeableIngress / ...ForVirtualServers / ...ForTransportServers *)
| OEnable | ODisable                           (* EnableReloads / DisableReloads *)
| OUpdateConfig (mainver : Z) (rs : list res)  (* UpdateConfig *)
| OReloadForBatch (flag : bool)                (* ReloadForBatchUpdates *)
| OUpdateVSs (rs : list res) (dels : list string)   (* UpdateVirtualServers *)
| OUpdateTSs (rs : list res) (dels : list string)   (* UpdateTransportServers *)
| OBatchDelete (k : rk) (names : list string)  (* BatchDeleteVirtualServers / BatchDeleteIngresses *)
| OSecret (eager : bool) (name : string) (ver : Z)  (* AddOrUpdateSpecialTLSSecrets / LicenseSecret / CASecret /
                                                     MGMTClientAuthSecret: write one secret file, never reload *)
| OReload.                                     (* the public Reload(): what the controller calls after a special Secret *)

Inductive err := ENone | EReloadFailed.

(* ---------- environment and state ---------- *)
(* which of the proposed repairs the code under test contains (probed on the real code by the
   harness on every run; all false = /repo as found):
   fx_weights  (F15)  AddOrUpdateVirtualServer no longer calls EnableReloads() for weight updates
   fx_uab      (F16c) updateAllConfigsOnBatch is reset when a batch ends
   fx_batchrep (F16b) a failed ReloadForBatchUpdates is reported on the resources
   fx_endprep  (F16d) syncEndpointSlices reports a failed update on the resources using the service *)
Record fixes := { fx_weights : bool; fx_uab : bool; fx_batchrep : bool; fx_endprep : bool }.
Definition no_fixes : fixes := {| fx_weights := false; fx_uab := false; fx_batchrep := false; fx_endprep := false |}.
Definition all_fixes : fixes := {| fx_weights := true; fx_uab := true; fx_batchrep := true; fx_endprep := true |}.

Record env := { plus : bool; ro : nat -> bool; ao : nat -> bool; fx : fixes }.

Record cst := {
  enabled : bool;          (* isReloadsEnabled *)
  files : smap Z;          (* what is on disk: key -> content identity *)
  loaded : smap Z;         (* ghost: the disk at the last successful reload *)
  dirty : bool;            (* ghost: a file NGINX reads changed since the last successful reload *)
  nrel : nat;              (* number of Reload calls made so far (index into ro) *)
  napi : nat;              (* number of API calls made so far (index into ao) *)
  pairs : smap Z           (* cnf.tlsPassthroughPairs: TransportServer -> host; tls-passthrough-hosts.conf is generated from it *)
}.

Definition init : cst :=
  {| enabled := false; files := []; loaded := []; dirty := false; nrel := 0; napi := 0; pairs := [] |}.

Definition set_enabled (b : bool) (s : cst) : cst :=
  {| enabled := b; files := files s; loaded := loaded s; dirty := dirty s; nrel := nrel s; napi := napi s; pairs := pairs s |}.

(* ---------- primitives ---------- *)
Definition do_write (k : fk) (name : string) (ver : Z) (s : cst) : cst * list ev :=
  let key := fkey k name in
  let ch := match lookup key (files s) with Some v => negb (Z.eqb v ver) | None => true end in
  (if ch then {| enabled := enabled s; files := insert key ver (files s);
                 loaded := if needs_reload k then loaded s else insert key ver (loaded s);
                 dirty := dirty s || needs_reload k; nrel := nrel s; napi := napi s; pairs := pairs s |}
   else s, [EWrite k name ch]).

Definition do_delete (k : fk) (name : string) (s : cst) : cst * list ev :=
  let key := fkey k name in
  let ex := mem key (files s) in
  (if ex then {| enabled := enabled s; files := remove key (files s); loaded := loaded s;
                 dirty := true; nrel := nrel s; napi := napi s; pairs := pairs s |}
   else s, [EDelete k name ex]).

Definition set_pairs (p : smap Z) (s : cst) : cst :=
  {| enabled := enabled s; files := files s; loaded := loaded s; dirty := dirty s; nrel := nrel s; napi := napi s; pairs := p |}.

(* identity of the content of tls-passthrough-hosts.conf, a function of the pairs *)
Fixpoint strsum (s : string) : Z :=
  match s with EmptyString => 0 | String c r => (Z.of_nat (Ascii.nat_of_ascii c) + 3 * strsum r)%Z end.
Definition tls_ver (p : smap Z) : Z :=
  fold_left (fun acc kv => (acc * 10007 + strsum (fst kv) * 16 + snd kv + 1)%Z) p 0%Z.

(* the tail of addOrUpdateTransportServer / deleteTransportServer: keep the pair of this TransportServer in step
   and regenerate the hosts map when the pair was set or dropped *)
Definition do_pt (name : string) (pt : option Z) (s : cst) : cst * list ev :=
  match pt with
  | Some h => let p := insert name h (pairs s) in do_write FTls "" (tls_ver p) (set_pairs p s)
  | None => if mem name (pairs s)
            then let p := remove name (pairs s) in do_write FTls "" (tls_ver p) (set_pairs p s)
            else (s, [])
  end.

(* addOrUpdateIngress / MergeableIngress / VirtualServer / TransportServer: the resource's file, and for a
   TransportServer the hosts map *)
Definition do_res (r : res) (s : cst) : cst * list ev :=
  let '(s1, l1) := do_write (fk_of (r_kind r)) (r_name r) (r_ver r) s in
  match r_kind r with
  | KTS => let '(s2, l2) := do_pt (r_name r) (r_pt r) s1 in (s2, l1 ++ l2)
  | _ => (s1, l1)
  end.

(* DeleteConfig / deleteTransportServer *)
Definition do_del (k : fk) (name : string) (s : cst) : cst * list ev :=
  let '(s1, l1) := do_delete k name s in
  match k with
  | FStream => let '(s2, l2) := do_pt name None s1 in (s2, l1 ++ l2)
  | _ => (s1, l1)
  end.

(* cnf.Reload: gated by isReloadsEnabled; third component = the call failed *)
Definition do_reload (e : env) (endp : bool) (s : cst) : cst * list ev * bool :=
  if enabled s then
    let ok := ro e (nrel s) in
    (if ok then {| enabled := true; files := files s; loaded := files s; dirty := false;
                   nrel := S (nrel s); napi := napi s; pairs := pairs s |}
     else {| enabled := true; files := files s; loaded := loaded s; dirty := dirty s;
             nrel := S (nrel s); napi := napi s; pairs := pairs s |},
     [EReload endp ok], negb ok)
  else (s, [], false).

(* update(Stream)ServersInPlus over one group: gated; the first failure abandons the group *)
Fixpoint do_api_group (e : env) (stream : bool) (ups : list string) (s : cst) : cst * list ev * bool :=
  match ups with
  | [] => (s, [], false)
  | u :: rest =>
      if enabled s then
        let ok := ao e (napi s) in
        let s1 := {| enabled := enabled s; files := files s; loaded := loaded s; dirty := dirty s;
                     nrel := nrel s; napi := S (napi s); pairs := pairs s |} in
        if ok then
          let '(s2, l, f) := do_api_group e stream rest s1 in (s2, EApi stream u true :: l, f)
        else (s1, [EApi stream u false], true)
      else (s, [], false)
  end.

Fixpoint do_api_groups (e : env) (stream : bool) (gs : list (list string)) (s : cst) : cst * list ev * bool :=
  match gs with
  | [] => (s, [], false)
  | g :: rest =>
      let '(s1, l1, f1) := do_api_group e stream g s in
      let '(s2, l2, f2) := do_api_groups e stream rest s1 in
      (s2, l1 ++ l2, f1 || f2)
  end.

(* addOrUpdateX for a list of resources; second component: some write changed a file *)
Fixpoint do_writes (rs : list res) (s : cst) : cst * list ev :=
  match rs with
  | [] => (s, [])
  | r :: rest =>
      let '(s1, l1) := do_res r s in
      let '(s2, l2) := do_writes rest s1 in (s2, l1 ++ l2)
  end.

Definition ev_changed (x : ev) : bool :=
  match x with EWrite k _ c => c && needs_reload k | EDelete _ _ c => c | _ => false end.

Fixpoint do_deletes (k : fk) (names : list string) (s : cst) : cst * list ev :=
  match names with
  | [] => (s, [])
  | n :: rest =>
      let '(s1, l1) := do_del k n s in
      let '(s2, l2) := do_deletes k rest s1 in (s2, l1 ++ l2)
  end.

(* the loop of UpdateEndpoints*: write, then (Plus) push; third component = reloadPlus *)
Fixpoint endp_loop (e : env) (rs : list res) (s : cst) : cst * list ev * bool :=
  match rs with
  | [] => (s, [], false)
  | r :: rest =>
      let '(s1, l1) := do_res r s in
      let '(s2, l2, f2) := if plus e then do_api_groups e (is_stream (r_kind r)) (r_apis r) s1
                           else (s1, [], false) in
      let '(s3, l3, f3) := endp_loop e rest s2 in
      (s3, l1 ++ l2 ++ l3, f2 || f3)
  end.

Definition sum_weights (rs : list res) : nat := fold_right (fun r n => r_weights r + n) 0 rs.

Record out := { log : list ev; oerr : err }.

Definition err_of (failed : bool) : err := if failed then EReloadFailed else ENone.

Definition finish_reload (e : env) (endp : bool) (s : cst) (l : list ev) : cst * out :=
  let '(s1, lr, f) := do_reload e endp s in
  (s1, {| log := l ++ lr; oerr := err_of f |}).

(* ---------- one public operation ---------- *)
Definition step (e : env) (s : cst) (o : op) : cst * out :=
  match o with
  | OAdd r =>
      let '(s1, l1) := do_res r s in
      (* AddOrUpdateVirtualServer: if len(weightUpdates) > 0 { cnf.EnableReloads() } *)
      let s2 := match r_kind r with
                | KVS => if (0 <? r_weights r)%nat && negb (fx_weights (fx e)) then set_enabled true s1 else s1
                | _ => s1
                end in
      finish_reload e false s2 l1
  | OAddVSs rs =>
      let '(s1, l1) := do_writes rs s in finish_reload e false s1 l1
  | OAddResources rs always =>
      let '(s1, l1) := do_writes rs s in
      if existsb ev_changed l1 || always then finish_reload e false s1 l1
      else (s1, {| log := l1; oerr := ENone |})
  | ODelete k name skip =>
      let '(s1, l1) := do_del (fk_of k) name s in
      if match k with KTS => false | _ => skip end then (s1, {| log := l1; oerr := ENone |})
      else finish_reload e false s1 l1
  | OEndpoints _ rs =>
      let '(s1, l1, rp) := endp_loop e rs s in
      if plus e && negb rp then (s1, {| log := l1; oerr := ENone |})
      else finish_reload e true s1 l1
  | OEnable => (set_enabled true s, {| log := [EEnable]; oerr := ENone |})
  | ODisable => (set_enabled false s, {| log := [EDisable]; oerr := ENone |})
  | OUpdateConfig mv rs =>
      let '(s1, l1) := do_write FMain "" mv s in
      let '(s2, l2) := do_writes rs s1 in
      finish_reload e false s2 (l1 ++ l2)
  | OReloadForBatch flag =>
      if flag then finish_reload e false s [] else (s, {| log := []; oerr := ENone |})
  | OUpdateVSs rs dels =>
      let '(s1, l1) := do_writes rs s in
      let '(s2, l2) := do_deletes FConf dels s1 in
      finish_reload e false s2 (l1 ++ l2)
  | OUpdateTSs rs dels =>
      let '(s1, l1) := do_writes rs s in
      let '(s2, l2) := do_deletes FStream dels s1 in
      finish_reload e false s2 (l1 ++ l2)
  | OBatchDelete k names =>
      let '(s1, l1) := do_deletes (fk_of k) names s in
      finish_reload e false s1 l1
  | OSecret eager name ver =>
      let '(s1, l1) := do_write (if eager then FSecret else FLazy) name ver s in
      (s1, {| log := l1; oerr := ENone |})
  | OReload => finish_reload e false s []
  end.

(* a history of operations; outputs in order *)
Fixpoint run (e : env) (s : cst) (os : list op) : cst * list out :=
  match os with
  | [] => (s, [])
  | o :: rest =>
      let '(s1, x) := step e s o in
      let '(s2, xs) := run e s1 rest in (s2, x :: xs)
  end.

Definition trace (xs : list out) : list ev := List.concat (map log xs).

(* ---------- decidable readings of a log (also evaluated on the implementation's log) ---------- *)

(* held-back window: Some h' = no Reload/API call happened while held, h' = held at the end *)
Fixpoint held_scan (h : bool) (t : list ev) : option bool :=
  match t with
  | [] => Some h
  | EEnable :: r => held_scan false r
  | EDisable :: r => held_scan true r
  | EReload _ _ :: r => if h then None else held_scan h r
  | EApi _ _ _ :: r => if h then None else held_scan h r
  | _ :: r => held_scan h r
  end.

(* pending change: a change event not followed by a successful reload *)
Fixpoint pend_scan (p : bool) (t : list ev) : bool :=
  match t with
  | [] => p
  | EWrite k _ c :: r => pend_scan (p || c && needs_reload k) r
  | EDelete _ _ c :: r => pend_scan (p || c) r
  | EReload _ true :: r => pend_scan false r
  | _ :: r => pend_scan p r
  end.

Definition is_api (x : ev) : bool := match x with EApi _ _ _ => true | _ => false end.
Definition api_ok (x : ev) : bool := match x with EApi _ _ ok => ok | _ => true end.
Definition is_reload (x : ev) : bool := match x with EReload _ _ => true | _ => false end.
Definition is_failed_reload (x : ev) : bool := match x with EReload _ false => true | _ => false end.
Definition is_change (x : ev) : bool := ev_changed x.

(* the change made by an operation is applied: nothing pending, or (Plus endpoints operation)
   every API call succeeded and there was at least one *)
Definition applied (plus_endp : bool) (l : list ev) : bool :=
  negb (pend_scan false l) || (plus_endp && forallb api_ok l && existsb is_api l).

Definition is_gate (o : op) : bool := match o with OEnable | ODisable => true | _ => false end.
Definition is_endp (o : op) : bool := match o with OEndpoints _ _ => true | _ => false end.
Definition skips (o : op) : bool :=
  match o with ODelete KTS _ _ => false | ODelete _ _ sk => sk | OReloadForBatch f => negb f | OSecret _ _ _ => true | _ => false end.
Definition has_weights (o : op) : bool :=
  match o with OAdd r => match r_kind r with KVS => (0 <? r_weights r)%nat | _ => false end | _ => false end.
(* the operation switches reloads on by itself (F15; never once repaired) *)
Definition forces_enable (e : env) (o : op) : bool := has_weights o && negb (fx_weights (fx e)).
(* every resource of an endpoints operation has something to push *)
Definition pushes (r : res) : bool :=
  match r_apis r with (_ :: _) :: _ => true | _ => false end.
Definition endp_pushes (o : op) : bool :=
  match o with OEndpoints _ rs => forallb pushes rs && negb (Nat.eqb (List.length rs) 0) | _ => true end.

(* ================= controller: LoadBalancerController.sync ================= *)
Inductive tkind := TEndpointSlice | TConfigMap | TOther.

Record task := {
  t_kind : tkind;
  t_qlen : nat;            (* lbc.syncQueue.Len() while this task is processed *)
  t_work : list op;        (* Configurator operations the task's handler performs (cluster state is external) *)
  t_found : bool;          (* endpointslice: resourcesFound *)
  t_reports : bool;        (* the handler has an object to report an error on (false when the task is
                              the deletion of an object that is already gone: the error is only logged) *)
  t_all_reports : bool;    (* updateAllConfigs has something to report an error on: a resource, or the
                              ConfigMap together with the GlobalConfiguration *)
  t_all_pre : list op;     (* the secret files updateAllConfigs rewrites first (MGMT licence, CA, client certificate) *)
  t_mainver : Z;           (* what updateAllConfigs would generate now: main config ... *)
  t_all : list res         (* ... and every resource *)
}.

Record ctl := {
  ready : bool;            (* isNginxReady *)
  batch : bool;            (* batchSyncEnabled *)
  ebr : bool;              (* enableBatchReload *)
  uab : bool;              (* updateAllConfigsOnBatch -- never reset by the code *)
  cfg : cst
}.

Definition ctl_init : ctl := {| ready := false; batch := false; ebr := false; uab := false; cfg := init |}.

Record sout := {
  slog : list ev;
  reported : bool;         (* a failure was reported on resources / the ConfigMap (event, status) *)
  swallowed : bool         (* a failure was only written to the controller log *)
}.

(* syncEndpointSlices only logs the error of UpdateEndpoints*; every other handler reports the
   error of its operation on the resource (event + status) when the resource still exists *)
Definition reports (e : env) (t : task) : bool :=
  match t_kind t with TEndpointSlice => fx_endprep (fx e) && t_reports t | TConfigMap => t_all_reports t | TOther => t_reports t end.

(* handler work: every operation's error is reported by the handler on the resources it concerns *)
Fixpoint run_work (e : env) (s : cst) (os : list op) : cst * list ev * bool :=
  match os with
  | [] => (s, [], false)
  | o :: rest =>
      let '(s1, x) := step e s o in
      let '(s2, l, f) := run_work e s1 rest in
      (s2, log x ++ l, match oerr x with ENone => false | _ => true end || f)
  end.

Definition update_all (e : env) (t : task) (s : cst) : cst * list ev * bool :=
  let '(s0, l0, f0) := run_work e s (t_all_pre t) in
  let '(s1, x) := step e s0 (OUpdateConfig (t_mainver t) (t_all t)) in
  (s1, l0 ++ log x, f0 || match oerr x with ENone => false | _ => true end).

Definition is_endp_task (k : tkind) : bool := match k with TEndpointSlice => true | _ => false end.
Definition is_cm_task (k : tkind) : bool := match k with TConfigMap => true | _ => false end.

(* the task's handler; configMap: syncConfigMap returns early unless ready and not in a batch *)
Definition handler (e : env) (t : task) (go_cm : bool) (s : cst) : cst * list ev * bool :=
  match t_kind t with
  | TConfigMap => if go_cm then update_all e t s else (s, [], false)
  | _ => run_work e s (t_work t)
  end.

(* if !lbc.isNginxReady && lbc.syncQueue.Len() == 0 { EnableReloads(); updateAllConfigs() } *)
Definition phase_fin (e : env) (t : task) (fin : bool) (s : cst) : cst * list ev * bool :=
  if fin then let '(s', l, r) := update_all e t (set_enabled true s) in (s', EEnable :: l, r)
  else (s, [], false).

(* if lbc.batchSyncEnabled && lbc.syncQueue.Len() == 0 { EnableReloads(); updateAllConfigs() or
   ReloadForBatchUpdates(enableBatchReload), whose error is only logged }
   result: state, log, failure of updateAllConfigs, failure of ReloadForBatchUpdates *)
Definition phase_end (e : env) (t : task) (bend ua eb : bool) (s : cst) : cst * list ev * bool * bool :=
  if bend then
    if ua then let '(s', l, r) := update_all e t (set_enabled true s) in (s', EEnable :: l, r, false)
    else let '(s', x) := step e (set_enabled true s) (OReloadForBatch eb) in
         (s', EEnable :: log x, false, match oerr x with ENone => false | _ => true end)
  else (s, [], false, false).

Definition sync (e : env) (c : ctl) (t : task) : ctl * sout :=
  let k := t_kind t in
  (* if lbc.isNginxReady && lbc.syncQueue.Len() > 1 && !lbc.batchSyncEnabled *)
  let start := ready c && (1 <? t_qlen t)%nat && negb (batch c) in
  let cfg1 := if start then set_enabled false (cfg c) else cfg c in
  let l1 := if start then [EDisable] else [] in
  let batch1 := batch c || start in
  (* if lbc.batchSyncEnabled && task.Kind != endpointslice *)
  let ebr1 := ebr c || (batch1 && negb (is_endp_task k)) in
  let uab1 := uab c || (is_cm_task k && batch1) in
  let '(cfg2, l2, f2) := handler e t (ready c && negb batch1) cfg1 in
  let rep2 := f2 && reports e t in
  let sw2 := f2 && negb (reports e t) in
  let ebr2 := ebr1 || (is_endp_task k && batch1 && t_found t) in
  let fin := negb (ready c) && Nat.eqb (t_qlen t) 0 in
  let '(cfg3, l3, f3) := phase_fin e t fin cfg2 in
  let ready3 := ready c || fin in
  let bend := batch1 && Nat.eqb (t_qlen t) 0 in
  let '(cfg4, l4, f4, f5) := phase_end e t bend uab1 ebr2 cfg3 in
  let ar := t_all_reports t in
  (* a failed ReloadForBatchUpdates: only logged, or (F16b repaired) reported on every resource *)
  let br := fx_batchrep (fx e) && negb (match t_all t with [] => true | _ => false end) in
  ({| ready := ready3; batch := batch1 && negb bend; ebr := ebr2 && negb bend; uab := uab1 && negb (bend && fx_uab (fx e)); cfg := cfg4 |},
   {| slog := l1 ++ l2 ++ l3 ++ l4; reported := rep2 || (f3 || f4) && ar || f5 && br; swallowed := sw2 || (f3 || f4) && negb ar || f5 && negb br |}).

Fixpoint run_sync (e : env) (c : ctl) (ts : list task) : ctl * list sout :=
  match ts with
  | [] => (c, [])
  | t :: rest =>
      let '(c1, x) := sync e c t in
      let '(c2, xs) := run_sync e c1 rest in (c2, x :: xs)
  end.

Definition strace (xs : list sout) : list ev := List.concat (map slog xs).

(* oracle from a list of failing call indices (what the harness injects) *)
Definition fails_at (l : list nat) : nat -> bool := fun i => negb (existsb (Nat.eqb i) l).
