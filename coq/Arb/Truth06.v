(* C05 truth proof, part 6: the problems of one step are the deltas of the two problem maps, plus the validation
   error of the object processed *)
From Coq Require Import List ZArith String Ascii Bool Lia.
From NIC Require Import Base.SMap Arb.Types Arb.Model Arb.Spec Arb.WinsProofs Arb.InvProofs Arb.OwnerProofs
     Arb.ListenerProofs Arb.ClassProofs Arb.ChangeProofs Arb.ReportProofs Arb.ComposeProofs Arb.Cases Arb.ShadowProofs Arb.ShadowAttrs.
From NIC Require Import Arb.Truth01 Arb.Truth02 Arb.Truth03 Arb.Truth04 Arb.Truth05.
Import ListNotations.
Open Scope string_scope.
Open Scope Z_scope.

Definition hdelta (s s' : state) : list problem := problem_delta (hprobs s') (hprobs s).
Definition ldelta (s s' : state) : list problem := problem_delta (lprobs s') (lprobs s).

(* the event is an upsert of an object of the controller's class that failed validation *)
Definition own_invalid (e : event) : bool :=
  match e with EIng _ cls v | EVS _ cls v | EVSR _ cls v | ETS _ cls v => cls && negb v | _ => false end.

Definition step_probs_ok (s s' : state) (e : event) (ps : list problem) : Prop :=
  (forall p, In p ps -> In p (hdelta s s') \/ In p (ldelta s s') \/
                        (own_invalid e = true /\ p_is_error p = true /\ event_obj e = Some (p_obj p, true))) /\
  (forall p, In p (hdelta s s') -> In p ps) /\ (forall p, In p (ldelta s s') -> In p ps).

Lemma wve_probs b k u out p :
  In p (snd (with_validation_error b k u out)) -> In p (snd out) \/ (b = true /\ p = mkP k u true rejected "invalid").
Proof.
  destruct out as [[s cs] ps]. unfold with_validation_error. destruct b; [|auto].
  destruct (attach_error k cs); cbn [snd]; [auto|]. intros H. apply in_app_or in H. destruct H as [H|[<-|[]]]; auto.
Qed.
Lemma wve_probs_keep b k u out p : In p (snd out) -> In p (snd (with_validation_error b k u out)).
Proof.
  destruct out as [[s cs] ps]. unfold with_validation_error. destruct b; [|auto].
  destruct (attach_error k cs); cbn [snd]; [auto|]. intros H. apply in_or_app. auto.
Qed.

Lemma wve_false k u out : with_validation_error false k u out = out.
Proof. destruct out as [[s cs] ps]. reflexivity. Qed.

Lemma wf_hprobs c s : full_inv c s -> wf (hprobs s).
Proof. intros (_ & -> & _). apply wf_of_list. Qed.
Lemma wf_lprobs c s : full_inv c s -> wf (lprobs s).
Proof. intros (_ & _ & ->). apply wf_of_list. Qed.

(* a step that rebuilds the host side only *)
Lemma hosts_only c s s1 e b k u :
  full_inv c s -> hprobs s1 = hprobs s -> lprobs s1 = lprobs s ->
  (b = true -> own_invalid e = true /\ event_obj e = Some (k, true)) ->
  step_probs_ok s (fst (fst (with_validation_error b k u (rebuild_hosts c s1)))) e
                (snd (with_validation_error b k u (rebuild_hosts c s1))).
Proof.
  intros Hinv Eh El Hb. rewrite objs_with_error. unfold step_probs_ok, hdelta, ldelta.
  assert (Eld : problem_delta (lprobs (fst (fst (rebuild_hosts c s1)))) (lprobs s) = []).
  { rewrite lprobs_rebuild_hosts, El. apply problem_delta_self. exact (wf_lprobs c s Hinv). }
  rewrite Eld. rewrite <- Eh.
  assert (Eps : snd (rebuild_hosts c s1) = problem_delta (hprobs (fst (fst (rebuild_hosts c s1)))) (hprobs s1)) by reflexivity.
  split; [|split].
  - intros p Hin. apply wve_probs in Hin. destruct Hin as [Hin|[-> ->]].
    + left. rewrite <- Eps. exact Hin.
    + right; right. destruct (Hb eq_refl) as [H1 H2]. cbn [p_is_error p_obj]. auto.
  - intros p Hin. apply wve_probs_keep. rewrite Eps. exact Hin.
  - intros p [].
Qed.

Lemma rebuild_gc_probs c s1 p :
  In p (snd (rebuild_gc c s1)) <->
  In p (problem_delta (lprobs (fst (fst (rebuild_gc c s1)))) (lprobs s1)) \/
  In p (problem_delta (hprobs (fst (fst (rebuild_gc c s1)))) (hprobs s1)).
Proof.
  unfold rebuild_gc.
  assert (E1 : snd (rebuild_listeners s1) = problem_delta (lprobs (fst (fst (rebuild_listeners s1)))) (lprobs s1)) by reflexivity.
  pose proof (hprobs_rebuild_listeners s1) as E2.
  destruct (rebuild_listeners s1) as [[s2 c1] p1]. cbn [fst snd] in *.
  assert (E3 : snd (rebuild_hosts c s2) = problem_delta (hprobs (fst (fst (rebuild_hosts c s2)))) (hprobs s2)) by reflexivity.
  pose proof (lprobs_rebuild_hosts c s2) as E4.
  destruct (rebuild_hosts c s2) as [[s3 c2] p2]. cbn [fst snd] in *.
  rewrite E4, <- E2, <- E1, <- E3. split; [apply in_app_or|apply in_or_app].
Qed.

Lemma rebuild_ts_probs c s1 p : wf (hprobs s1) ->
  In p (snd (rebuild_ts c s1)) <->
  In p (problem_delta (lprobs (fst (fst (rebuild_ts c s1)))) (lprobs s1)) \/
  In p (problem_delta (hprobs (fst (fst (rebuild_ts c s1)))) (hprobs s1)).
Proof.
  intros W. unfold rebuild_ts.
  assert (E1 : snd (rebuild_listeners s1) = problem_delta (lprobs (fst (fst (rebuild_listeners s1)))) (lprobs s1)) by reflexivity.
  pose proof (hprobs_rebuild_listeners s1) as E2.
  destruct (rebuild_listeners s1) as [[s2 c1] p1]. cbn [fst snd] in *.
  destruct (tls_passthrough c).
  - assert (E3 : snd (rebuild_hosts c s2) = problem_delta (hprobs (fst (fst (rebuild_hosts c s2)))) (hprobs s2)) by reflexivity.
    pose proof (lprobs_rebuild_hosts c s2) as E4.
    destruct (rebuild_hosts c s2) as [[s3 c2] p2]. cbn [fst snd] in *.
    rewrite E4, <- E2, <- E1, <- E3. split; [apply in_app_or|apply in_or_app].
  - cbn [fst snd]. rewrite E2, (problem_delta_self _ W), <- E1. split; [auto|intros [H|[]]; exact H].
Qed.

(* a step that rebuilds both sides *)
Lemma both_sides c s s1 e b k u out :
  full_inv c s -> hprobs s1 = hprobs s -> lprobs s1 = lprobs s ->
  (forall p, In p (snd out) <->
             In p (problem_delta (lprobs (fst (fst out))) (lprobs s1)) \/ In p (problem_delta (hprobs (fst (fst out))) (hprobs s1))) ->
  (b = true -> own_invalid e = true /\ event_obj e = Some (k, true)) ->
  step_probs_ok s (fst (fst (with_validation_error b k u out))) e (snd (with_validation_error b k u out)).
Proof.
  intros Hinv Eh El Hps Hb. rewrite objs_with_error. unfold step_probs_ok, hdelta, ldelta. rewrite <- Eh, <- El.
  split; [|split].
  - intros p Hin. apply wve_probs in Hin. destruct Hin as [Hin|[-> ->]].
    + apply Hps in Hin. tauto.
    + right; right. destruct (Hb eq_refl) as [H1 H2]. cbn [p_is_error p_obj]. auto.
  - intros p Hin. apply wve_probs_keep. apply Hps. auto.
  - intros p Hin. apply wve_probs_keep. apply Hps. auto.
Qed.

Lemma step_probs c s e : full_inv c s -> step_probs_ok s (step_state c s e) e (snd (step c s e)).
Proof.
  intros Hinv.
  assert (Nil : step_probs_ok s s e []).
  { unfold step_probs_ok, hdelta, ldelta. rewrite (problem_delta_self _ (wf_hprobs c s Hinv)), (problem_delta_self _ (wf_lprobs c s Hinv)).
    repeat split; intros p []. }
  unfold step_state.
  destruct e as [i cls valid|k|v cls valid|k|r cls valid|k|t cls valid|k|ls x|]; cbn [step].
  - apply (hosts_only c s); auto. intros Hb. cbn [own_invalid event_obj]. apply andb_true_iff in Hb. destruct Hb as [-> ->]. auto.
  - destruct (mem k (ings s)); [|exact Nil].
    apply (hosts_only c s _ (EDelIng k) false "" ""); auto. discriminate.
  - apply (hosts_only c s); auto. intros Hb. cbn [own_invalid event_obj]. apply andb_true_iff in Hb. destruct Hb as [-> ->]. auto.
  - destruct (mem k (vss s)); [|exact Nil].
    apply (hosts_only c s _ (EDelVS k) false "" ""); auto. discriminate.
  - set (s1 := set_vsrs s _).
    pose proof (hosts_only c s s1 (EVSR r cls valid) false "" "" Hinv eq_refl eq_refl) as H. cbn [with_validation_error] in H.
    destruct (rebuild_hosts c s1) as [[s2 cs] ps] eqn:R. cbn [fst snd] in *.
    assert (H' : step_probs_ok s s2 (EVSR r cls valid) ps) by (apply H; discriminate).
    destruct (cls && negb valid) eqn:Hb; [|exact H'].
    destruct H' as (A & B & C). split; [|split].
    + intros p Hin. apply in_app_or in Hin. destruct Hin as [Hin|[<-|[]]]; [exact (A p Hin)|].
      right; right. cbn [own_invalid event_obj p_is_error p_obj]. apply andb_true_iff in Hb. destruct Hb as [-> ->]. auto.
    + intros p Hin. apply in_or_app. left. exact (B p Hin).
    + intros p Hin. apply in_or_app. left. exact (C p Hin).
  - destruct (mem k (vsrs s)); [|exact Nil].
    apply (hosts_only c s _ (EDelVSR k) false "" ""); auto. discriminate.
  - set (s1 := set_tss s _).
    apply (both_sides c s s1); auto.
    + intros p. apply rebuild_ts_probs. exact (wf_hprobs c s Hinv).
    + intros Hb. cbn [own_invalid event_obj]. apply andb_true_iff in Hb. destruct Hb as [-> ->]. auto.
  - destruct (mem k (tss s)); [|exact Nil]. set (s1 := set_tss s _).
    rewrite <- (wve_false "" "" (rebuild_ts c s1)).
    apply (both_sides c s s1 (EDelTS k) false "" "" (rebuild_ts c s1)); auto; [|discriminate].
    intros p. apply rebuild_ts_probs. exact (wf_hprobs c s Hinv).
  - set (s1 := set_gc s _).
    rewrite <- (wve_false "" "" (rebuild_gc c s1)).
    apply (both_sides c s s1 (EGC ls x) false "" "" (rebuild_gc c s1)); auto; [|discriminate].
    intros p. apply rebuild_gc_probs.
  - set (s1 := set_gc s _).
    rewrite <- (wve_false "" "" (rebuild_gc c s1)).
    apply (both_sides c s s1 EDelGC false "" "" (rebuild_gc c s1)); auto; [|discriminate].
    intros p. apply rebuild_gc_probs.
Qed.
